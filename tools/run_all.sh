#!/bin/sh
# runs every claimed check's quick command on the current /repo tree and prints one line per property
cd /verif
git -C /repo diff --quiet || { echo "/repo has uncommitted changes"; exit 3; }
for id in $(python3 -c "import sys; sys.path.insert(0,'vx'); import units; print(' '.join(sorted(units.PROPS)))"); do
  ./check $id > /tmp/run_all_$id.log 2>&1; echo "$id rc=$? $(tail -1 /tmp/run_all_$id.log)"
done
