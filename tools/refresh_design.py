#!/usr/bin/env python3
"""Regenerates the unit table (section 11) and the claims table (section 12) of DESIGN.md from vx/units.py."""
import os, re, subprocess
root = os.path.join(os.path.dirname(os.path.abspath(__file__)), '..')
out = subprocess.run(['python3', os.path.join(root, 'tools', 'design_tables.py')], capture_output=True, text=True).stdout
units_tbl, claims_tbl = out.split('\n\n', 1)
d = open(os.path.join(root, 'DESIGN.md')).read()
def repl(d, first_line_prefix, new):
    i = d.index(first_line_prefix)
    j = d.index('\n\n', i)
    return d[:i] + new.rstrip('\n') + d[j:]
d = repl(d, '| unit | back end |', units_tbl)
d = repl(d, '| id | level | units | note |', claims_tbl)
open(os.path.join(root, 'DESIGN.md'), 'w').write(d)
print('DESIGN.md tables refreshed')
