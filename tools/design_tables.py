#!/usr/bin/env python3
"""Prints the unit table (DESIGN.md section 11) and the claims table (section 12) from vx/units.py."""
import os, sys
sys.path.insert(0, os.path.join(os.path.dirname(os.path.abspath(__file__)), '..', 'vx'))
import units as U

def backend(c):
    if c['kind'] == 'verus':
        return 'Verus'
    if c['kind'] == 'native':
        return 'native witness search'
    hs = [h for h in c.get('harnesses', []) if not h.get('expect_fail')]
    nb = sum(1 for h in hs if h.get('bounded'))
    if nb == 0:
        return 'Kani complete'
    if nb == len(hs):
        return 'Kani bounded'
    return 'Kani complete + bounded'

print('| unit | back end | what is under contract (extracted from /repo on every run) | claimed by |')
print('|------|----------|--------------------------------------------------------------|------------|')
for uid, c in U.UNITS.items():
    by = [p for p, d in U.PROPS.items() if uid in d['units'] or uid in d.get('thorough_units', [])]
    fb = [u for u, d in U.UNITS.items() if d.get('fallback') == uid]
    note = (' (fallback of %s)' % ', '.join(fb)) if fb else ''
    print('| %s | %s | %s | %s%s |' % (uid, backend(c), c['title'].replace('|', '\\|'), ' '.join(sorted(by)) or '-', note))
print()
print('| id | level | units | note |')
print('|----|-------|-------|------|')
for p, d in sorted(U.PROPS.items()):
    print('| %s | %s | %s | %s |' % (p, d['level'], ' '.join(d['units'] + ['(thorough: %s)' % ' '.join(d['thorough_units'])] if d.get('thorough_units') else d['units']), d['level_note'].replace('|', '\\|')))
for p, r in sorted(U.NOT_APPLICABLE.items()):
    print('| %s | not applicable | - | %s |' % (p, r))
