#!/bin/sh
# final clean-tree run: every quick check on /repo's committed tree, schema validation of evidence and manifest, commit
cd /verif
git -C /repo diff --quiet || { echo "/repo has uncommitted changes"; exit 3; }
tools/run_all.sh | tee /tmp/finalize_run_all.log
grep -v "rc=0" /tmp/finalize_run_all.log && { echo "NOT ALL CHECKS PASSED"; exit 1; }
python3 vx/manifest.py
python3 tools/refresh_design.py
python3-vt - <<'PY' || exit 1
import json, glob, jsonschema
s = json.load(open('/root/.vp/EVIDENCE.schema.json'))
for f in sorted(glob.glob('/verif/evidence/*.json')):
    jsonschema.validate(json.load(open(f)), s)
jsonschema.validate(json.load(open('/verif/MANIFEST.json')), json.load(open('/root/.vp/MANIFEST.schema.json')))
print('evidence and manifest valid')
PY
git add -A && git commit -qm "evidence from a clean-tree run of all quick checks on /repo $(git -C /repo rev-parse --short HEAD)" && echo committed
