#!/bin/sh
# usage: tools/try_seed.sh <patch.diff> <property id>...   -- applies a seeded change to /repo, runs the checks, reverts.
P="$1"; shift
cd /repo || exit 3
git diff --quiet || { echo "/repo not clean"; exit 3; }
git apply "$P" || { echo "patch does not apply"; exit 3; }
cd /verif
for id in "$@"; do
  ./check "$id" > /tmp/try_seed_$id.log 2>&1; rc=$?
  echo "== $id rc=$rc"; grep -E "^VIOLATION|^UNDECIDED|^KNOWN|^unit" /tmp/try_seed_$id.log | cut -c1-400
done
git -C /repo checkout -- .
