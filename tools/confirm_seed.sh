#!/bin/sh
# usage: tools/confirm_seed.sh <seed dir under /verif/seeded> [worktree]
# Confirms in a scratch worktree: demo fails with the change, suite passes with the change, demo passes without it.
S="$1"; WT="${2:-/tmp/wt_fix}"
DEMO=$(python3 -c "import json;print(json.load(open('$S/meta.json'))['demo_path'])")
NAME=$(basename "$DEMO" .rs)
cd "$WT" || exit 3
git checkout -q -- . ; git clean -fdq tests src 2>/dev/null
cp "$S/demo.rs" "$DEMO"
runtest() { unshare -rn sh -c "ip link set lo up 2>/dev/null; cargo test --offline $* 2>&1"; }
runtest --test "$NAME" > /tmp/confirm_demo_without.log; W=$?
git apply "$S/patch.diff" || { echo "APPLY-FAILED"; rm -f "$DEMO"; exit 3; }
runtest --test "$NAME" > /tmp/confirm_demo_with.log; D=$?
rm -f "$DEMO"
runtest --workspace --no-fail-fast > /tmp/confirm_suite.log; SU=$?
PASSED=$(grep -E "^test result" /tmp/confirm_suite.log | awk '{s+=$4} END {print s}')
git checkout -q -- . ; git clean -fdq tests 2>/dev/null
echo "seed=$(basename $S) demo_without_rc=$W demo_with_rc=$D suite_rc=$SU suite_passed=$PASSED"
python3 - "$S" "$W" "$D" "$SU" "$PASSED" <<'PY'
import json,sys
s,w,d,su,p=sys.argv[1:]
m=json.load(open(s+'/meta.json'))
m['confirmed']={'demo_passes_without_change': w=='0', 'demo_fails_with_change': d!='0', 'suite_passes_with_change': su=='0', 'suite_tests_passed': int(p or 0),
 'how': 'tools/confirm_seed.sh in a scratch worktree of /repo HEAD (incl. fix: commits); cargo test --offline inside `unshare -rn` (private loopback, the ingestion tests bind fixed ports)'}
json.dump(m,open(s+'/meta.json','w'),indent=1)
PY
