#!/bin/sh
# Offline setup after a fresh restore: nothing is downloaded. Creates the build directory and warms the
# Kani harness crates' target directories (so that quick checks recompile only the extracted files).
set -e
cd "$(dirname "$0")"
mkdir -p build evidence replays
python3 -c "import sys; sys.path.insert(0,'vx'); import gen, run, units, witness" 
verus --version >/dev/null 2>&1 || { echo "verus not found"; exit 1; }
cargo kani --version >/dev/null 2>&1 || { echo "cargo-kani not found"; exit 1; }
if [ -x ./vx/warm.sh ]; then ./vx/warm.sh || true; fi
echo setup ok
