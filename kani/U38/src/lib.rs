// U38 (Kani, complete): order of a NULL grouping key inside one partition vs. across partitions (C02 / C04: "the answer is the
// same whether the table is one partition or many").  Inside a partition the groups come out in ascending order of the packed
// key, whose field for a nullable integer column is FuseIntNulls (NULL -> 0, v -> v + offset).  The result column handed to the
// cross-partition merge carries NULL as I64_NULL (FuseNullsI64) and is merged with Comparator<i64> for CmpLessThan, which
// requires both inputs to be sorted by that comparator.  The two orders must agree on every pair of keys.
#![allow(dead_code, unused_variables)]
use std::cmp::Ordering;
pub struct Offset { pub offset: i64 }
pub struct Present(pub bool);
impl Present { pub fn is_set(&self, _i: usize) -> bool { self.0 } }
pub struct T;
impl T { pub fn zero() -> i64 { 0 } }
include!("order.rs");

#[cfg(kani)]
mod proofs {
    use super::*;
    fn any_key(min: i64, max: i64) -> Option<i64> {
        let v: i64 = kani::any();
        if kani::any() { kani::assume(min <= v && v <= max); Some(v) } else { None }
    }
    fn field(k: Option<i64>, offset: i64) -> i64 {
        let mut out = Vec::with_capacity(1);
        group_key_field(&Offset { offset }, &[k.unwrap_or(0)], &Present(k.is_some()), 0, &mut out);
        out[0]
    }
    fn column(k: Option<i64>) -> i64 {
        let mut out = Vec::with_capacity(1);
        merge_column_value(&[k.unwrap_or(0)], &Present(k.is_some()), 0, &mut out);
        out[0]
    }
    #[kani::proof]
    #[kani::unwind(3)]
    fn null_key_order_agrees() {
        let (min, max): (i64, i64) = (kani::any(), kani::any());
        kani::assume(min <= max && min > i64::MIN / 2 && max < i64::MAX / 2); // ranges the planner accepts (U31k)
        let offset = 1 - min; // what compile_grouping_key / try_bitpacking pass for a nullable column
        let (a, b) = (any_key(min, max), any_key(min, max));
        let in_partition = field(a, offset) < field(b, offset);
        let across_partitions = CmpLessThan::cmp(column(a), column(b));
        kani::cover!(a.is_none() && b.is_some(), "vacuity: a NULL key next to a value");
        assert!(in_partition == across_partitions, "[null-order-agrees] a group that comes first inside a partition also compares smaller in the cross-partition merge (else the merge sees unsorted input and emits a group twice)");
    }
    #[kani::proof]
    fn vx_canary() {
        let x: u8 = kani::any();
        assert!(x < 200, "[canary] must fail");
    }
} // mod proofs
