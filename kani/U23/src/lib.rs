// U23 (Kani, BOUNDED in string length): column_buffer.rs is_lowercase_hex / is_uppercase_hex - the predicates that decide
// whether a string column may be stored hex-packed (and with which case it is restored).  C01: strings byte-exact.
#![allow(dead_code)]
include!("hex.rs");

#[cfg(kani)]
mod proofs {
    use super::*;
    #[kani::proof]
    #[kani::unwind(5)]
    fn hex_predicates() {
        let b: [u8; 2] = kani::any();
        let n: usize = kani::any();
        kani::assume(n <= 2 && b[0] < 128 && b[1] < 128);
        let s: &str = unsafe { std::str::from_utf8_unchecked(&b[..n]) }; // ASCII by construction
        let lower = |c: u8| c.is_ascii_digit() || (b'a'..=b'f').contains(&c);
        let upper = |c: u8| c.is_ascii_digit() || (b'A'..=b'F').contains(&c);
        let all_lower = (0..n).all(|k| lower(b[k]));
        let all_upper = (0..n).all(|k| upper(b[k]));
        kani::cover!(n == 2 && all_upper && !all_lower, "vacuity: an upper-case hex pair is generated");
        assert!(is_lowercase_hex(s) == (n % 2 == 0 && all_lower), "[lower-hex] true exactly for even-length strings over 0-9a-f (restored lower-case)");
        assert!(is_uppercase_hex(s) == (n % 2 == 0 && all_upper), "[upper-hex] true exactly for even-length strings over 0-9A-F (restored upper-case)");
    }
    #[kani::proof]
    fn vx_canary() {
        let x: u8 = kani::any();
        assert!(x < 200, "[canary] must fail");
    }
} // mod proofs
