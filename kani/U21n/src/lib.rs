// U21n (native, BOUNDED exhaustive enumeration - not a proof): parser.rs get_raw_val - the conversion of a numeric literal
// inside an expression (WHERE a < 1e3).  C12: "for any text passed as a query the call returns an error value or a result,
// never a panic in the caller".  The real sqlparser tokenizer (same version as /repo's Cargo.lock) decides which texts are
// numeric literals; every such token of at most 6 characters is handed to the real get_raw_val.
#![allow(dead_code)]
use sqlparser::ast::Value;
#[derive(Debug)]
pub enum QueryError { NotImplemented(String), Other }
#[derive(Debug, PartialEq)]
pub enum RawVal { Int(i64), Float(ordered_float::OrderedFloat<f64>), Str(String), Null } // R10: same variants as ingest::raw_val::RawVal
include!("rawval.rs");

pub fn search(max_len: usize) -> Option<String> {
    use sqlparser::dialect::GenericDialect;
    use sqlparser::tokenizer::{Token, Tokenizer};
    let alphabet = ['0', '1', '9', '.', 'e', 'E', '+', '-'];
    let mut words: Vec<String> = vec![String::new()];
    let mut last: Vec<String> = vec![String::new()];
    for _ in 0..max_len {
        let mut next = Vec::new();
        for w in &last { for &c in &alphabet { let mut v = w.clone(); v.push(c); next.push(v); } }
        words.extend(next.iter().cloned());
        last = next;
    }
    // boundary literals: around the i64 / u64 limits, beyond them, and floats that overflow / underflow
    for b in ["9223372036854775807", "9223372036854775808", "18446744073709551615", "18446744073709551616", "99999999999999999999999999",
              "1e308", "1e309", "1e400", "1e-400", "0.000000000000000000000000000000000000001", "123456789012345678901234567890.5"] {
        words.push(b.to_string());
    }
    let dialect = GenericDialect {};
    let mut seen = 0usize;
    for w in words.iter() {
        let tokens = match Tokenizer::new(&dialect, w).tokenize() { Ok(t) => t, Err(_) => continue };
        for t in tokens {
            if let Token::Number(s, long) = t {
                seen += 1;
                let v = Value::Number(s.clone(), long);
                let r = std::panic::catch_unwind(|| get_raw_val(&v).map(|_| ()).map_err(|_| ()));
                if r.is_err() {
                    return Some(format!("literal-never-panics: the numeric literal token '{}' (from the text '{}') makes get_raw_val panic", s, w));
                }
            }
        }
    }
    if seen == 0 { return Some("pool-empty: the tokenizer produced no numeric literal".to_string()); }
    None
}
