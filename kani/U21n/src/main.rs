fn main() {
    std::panic::set_hook(Box::new(|_| {}));
    let thorough = std::env::var("VERIF_TIER").map(|t| t == "thorough").unwrap_or(false);
    let n = if thorough { 7 } else { 6 };
    match vx_u21n::search(n) {
        Some(w) => { println!("WITNESS {}", w); std::process::exit(1); }
        None => println!("NO-WITNESS (every numeric-literal token in texts of length <= {} over {{0,1,9,.,e,E,+,-}})", n),
    }
}
