// U15 (Kani, BOUNDED in sequence length, complete in values): integer response-column layouts of
// locustdb-serialization/src/api.rs - statistics, layout selection conditions, encoders and client-side decoders,
// all extracted from /repo (items and statement/expression slices; capnp builder/reader calls are dropped).
#![allow(dead_code, unused_imports)]
include!("api.rs");

#[cfg(kani)]
mod proofs {
    use super::*;

    // order of the if-chain in Column::serialize_builder (restated by hand; every condition is the extracted expression)
    fn layout(s: &DeltaStats) -> u8 {
        if cond_range(s) { 0 } else if cond_delta_i8(s) { 1 } else if cond_ddelta_i8(s) { 2 } else if cond_delta_i16(s) { 3 }
        else if cond_ddelta_i16(s) { 4 } else if cond_delta_i32(s) { 5 } else if cond_ddelta_i32(s) { 6 } else { 7 }
    }

    // C16: "integer columns decode on the client to the same values through the range / delta / double-delta compressions"
    fn check(xs: &[i64]) {
        let stats = determine_delta_compressability(xs);
        let l = layout(&stats);
        let back: Vec<i64> = match l {
            0 => dec_range(xs[0], xs.len(), range_step(&stats)),
            1 => dec_delta_i8(xs[0], delta_encode::<i8>(xs)),
            2 => dec_ddelta_i8(xs[0], xs[1], double_delta_encode::<i8>(xs)),
            3 => dec_delta_i16(xs[0], delta_encode::<i16>(xs)),
            4 => dec_ddelta_i16(xs[0], xs[1], double_delta_encode::<i16>(xs)),
            5 => dec_delta_i32(xs[0], delta_encode::<i32>(xs)),
            6 => dec_ddelta_i32(xs[0], xs[1], double_delta_encode::<i32>(xs)),
            _ => xs.to_vec(),
        };
        kani::cover!(l == 0, "vacuity: range layout reachable");
        kani::cover!(l == 2 || xs.len() == 2, "vacuity: double-delta layout reachable (needs 3 values)");
        kani::cover!(l == 7, "vacuity: plain layout reachable");
        assert!(back.len() == xs.len(), "[same-length] decoded column has as many values as were sent");
        for k in 0..xs.len() {
            assert!(back[k] == xs[k], "[same-values] decoded values equal the values the server produced");
        }
    }

    #[kani::proof]
    #[kani::unwind(6)]
    fn layouts_len2() { let xs: [i64; 2] = kani::any(); check(&xs); }
    #[kani::proof]
    #[kani::unwind(6)]
    fn layouts_len3() { let xs: [i64; 3] = kani::any(); check(&xs); }
    #[kani::proof]
    #[kani::unwind(7)]
    fn layouts_len4() { let xs: [i64; 4] = kani::any(); check(&xs); }

    #[kani::proof]
    fn vx_canary() {
        let x: u8 = kani::any();
        assert!(x < 200, "[canary] must fail");
    }
} // mod proofs
