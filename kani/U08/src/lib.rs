// U08 (Kani, complete): checked integer arithmetic kernels of numeric_operators.rs.
// The operator file is compiled AS IS via #[path]; the two traits it implements are extracted from binary_operator.rs.
#![allow(dead_code, unused_imports)]
pub mod operators {
    pub mod binary_operator {
        include!("binary_operator_traits.rs");
    }
    #[path = "@REPO@/src/engine/operators/numeric_operators.rs"]
    pub mod numeric_operators;
}

#[cfg(kani)]
mod proofs {
    use super::operators::binary_operator::*;
    use super::operators::numeric_operators::*;

    // Contract from C06, per operand pair (l, r) and result (v, flag):
    //   no panic;  !flag ==> v == exact(l, r);  flag ==> exact(l, r) not in [i64::MIN, i64::MAX) or divisor == 0
    // (i64::MAX is the engine's NULL marker: reporting it as overflow is permitted, returning it silently is also
    //  permitted for + - * because the operators do not know about the marker; what is never permitted is a wrapped value.)
    macro_rules! add_sub {
        ($name:ident, $op:ident, $l:ty, $r:ty, $opr:tt) => {
            #[kani::proof]
            fn $name() {
                let l: $l = kani::any();
                let r: $r = kani::any();
                let (v, flag) = <$op<$l, $r> as CheckedBinaryOp<$l, $r, i64>>::perform_checked(l, r);
                let e: i128 = (l as i128) $opr (r as i128);
                let fits = e >= i64::MIN as i128 && e <= i64::MAX as i128;
                kani::cover!(!flag, "vacuity: no-flag reachable");
                assert!(flag || v as i128 == e, "[exact-when-unflagged] unflagged result equals the mathematical result");
                assert!(!flag || !fits, "[flag-only-when-overflow] flag raised only if the exact result does not fit i64");
                assert!(fits || flag, "[flag-when-overflow] a result that does not fit raises the flag");
            }
        };
    }
    macro_rules! mul {
        ($name:ident, $l:ty, $r:ty) => {
            #[kani::proof]
            fn $name() {
                let l: $l = kani::any();
                let r: $r = kani::any();
                let (v, flag) = <Multiplication<$l, $r, i64> as CheckedBinaryOp<$l, $r, i64>>::perform_checked(l, r);
                let e = (l as i64).checked_mul(r as i64);
                kani::cover!(!flag, "vacuity: no-flag reachable");
                assert!(flag || e == Some(v), "[exact-when-unflagged] unflagged product equals checked_mul");
                assert!(!flag || e.is_none(), "[flag-only-when-overflow] flag raised only if the product does not fit i64");
                assert!(e.is_some() || flag, "[flag-when-overflow] a product that does not fit raises the flag");
            }
        };
    }
    macro_rules! div {
        ($name:ident, $l:ty, $r:ty) => {
            #[kani::proof]
            fn $name() {
                let l: $l = kani::any();
                let r: $r = kani::any();
                let (v, flag) = <Division<$l, $r> as CheckedBinaryOp<$l, $r, i64>>::perform_checked(l, r);
                let (l, r) = (l as i64, r as i64);
                kani::cover!(!flag, "vacuity: no-flag reachable");
                assert!(r != 0 || flag, "[flag-when-div0] division by zero raises the flag");
                if r != 0 {
                    let e = l.checked_div(r);
                    assert!(flag || e == Some(v), "[exact-when-unflagged] unflagged quotient equals truncated division");
                    assert!(!flag || e.is_none() || e == Some(i64::MAX), "[flag-only-when-overflow] flag only for i64::MIN / -1 or a quotient equal to the NULL marker");
                }
            }
        };
    }
    macro_rules! modulo {
        ($name:ident, $l:ty, $r:ty) => {
            #[kani::proof]
            fn $name() {
                let l: $l = kani::any();
                let r: $r = kani::any();
                let (v, flag) = <Modulo<$l, $r> as CheckedBinaryOp<$l, $r, i64>>::perform_checked(l, r);
                let (l, r) = (l as i64, r as i64);
                kani::cover!(!flag, "vacuity: no-flag reachable");
                assert!(r != 0 || flag, "[flag-when-div0] modulo by zero raises the flag");
                if r != 0 {
                    assert!(flag || v == l.wrapping_rem(r), "[exact-when-unflagged] unflagged remainder equals the mathematical remainder");
                    assert!(!flag, "[flag-only-when-div0] a remainder always fits: no flag for a non-zero divisor");
                }
            }
        };
    }
    macro_rules! all_pairs {
        ($m:ident ! [$($pre:tt)*] $a:ident $b:ident $c:ident $d:ident $e:ident $f:ident $g:ident $h:ident $i:ident $j:ident $k:ident $l:ident $mm:ident $n:ident $o:ident $p:ident [$($post:tt)*]) => {
            $m!($a, $($pre)* u8, u8 $($post)*);   $m!($b, $($pre)* u8, u16 $($post)*);  $m!($c, $($pre)* u8, u32 $($post)*);  $m!($d, $($pre)* u8, i64 $($post)*);
            $m!($e, $($pre)* u16, u8 $($post)*);  $m!($f, $($pre)* u16, u16 $($post)*); $m!($g, $($pre)* u16, u32 $($post)*); $m!($h, $($pre)* u16, i64 $($post)*);
            $m!($i, $($pre)* u32, u8 $($post)*);  $m!($j, $($pre)* u32, u16 $($post)*); $m!($k, $($pre)* u32, u32 $($post)*); $m!($l, $($pre)* u32, i64 $($post)*);
            $m!($mm, $($pre)* i64, u8 $($post)*); $m!($n, $($pre)* i64, u16 $($post)*); $m!($o, $($pre)* i64, u32 $($post)*); $m!($p, $($pre)* i64, i64 $($post)*);
        };
    }
    all_pairs!(add_sub![Addition,] add_u8_u8 add_u8_u16 add_u8_u32 add_u8_i64 add_u16_u8 add_u16_u16 add_u16_u32 add_u16_i64 add_u32_u8 add_u32_u16 add_u32_u32 add_u32_i64 add_i64_u8 add_i64_u16 add_i64_u32 add_i64_i64 [, +]);
    all_pairs!(add_sub![Subtraction,] sub_u8_u8 sub_u8_u16 sub_u8_u32 sub_u8_i64 sub_u16_u8 sub_u16_u16 sub_u16_u32 sub_u16_i64 sub_u32_u8 sub_u32_u16 sub_u32_u32 sub_u32_i64 sub_i64_u8 sub_i64_u16 sub_i64_u32 sub_i64_i64 [, -]);
    all_pairs!(mul![] mul_u8_u8 mul_u8_u16 mul_u8_u32 mul_u8_i64 mul_u16_u8 mul_u16_u16 mul_u16_u32 mul_u16_i64 mul_u32_u8 mul_u32_u16 mul_u32_u32 mul_u32_i64 mul_i64_u8 mul_i64_u16 mul_i64_u32 mul_i64_i64 []);
    all_pairs!(div![] div_u8_u8 div_u8_u16 div_u8_u32 div_u8_i64 div_u16_u8 div_u16_u16 div_u16_u32 div_u16_i64 div_u32_u8 div_u32_u16 div_u32_u32 div_u32_i64 div_i64_u8 div_i64_u16 div_i64_u32 div_i64_i64 []);
    all_pairs!(modulo![] mod_u8_u8 mod_u8_u16 mod_u8_u32 mod_u8_i64 mod_u16_u8 mod_u16_u16 mod_u16_u32 mod_u16_i64 mod_u32_u8 mod_u32_u16 mod_u32_u32 mod_u32_i64 mod_i64_u8 mod_i64_u16 mod_i64_u32 mod_i64_i64 []);

    // canary: must be rejected
    #[kani::proof]
    fn vx_canary() {
        let x: u8 = kani::any();
        assert!(x < 200, "[canary] must fail");
    }
} // mod proofs
