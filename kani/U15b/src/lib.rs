// U15b (Kani, BOUNDED): the real locustdb-serialization crate, response integer column through
// MultiQueryResponse::serialize / deserialize (capnp included), <= 3 values, full i64 value domain.
#![allow(dead_code, unused_imports)]
#[cfg(kani)]
mod proofs {
    use locustdb_serialization::api::*;

    fn roundtrip(xs: Vec<i64>) {
        let resp = MultiQueryResponse { responses: vec![QueryResponse { columns: vec![("c".to_string(), Column::Int(xs.clone()))] }] };
        let bytes = resp.serialize();
        let back = MultiQueryResponse::deserialize(&bytes).unwrap();
        match &back.responses[0].columns[0].1 {
            Column::Int(ys) => assert!(*ys == xs, "[int-roundtrip] integer response column decodes to the same values"),
            _ => assert!(false, "[int-roundtrip] integer column comes back as an integer column"),
        }
    }

    #[kani::proof]
    #[kani::unwind(6)]
    fn int_column_roundtrip_3() {
        let a: i64 = kani::any(); let b: i64 = kani::any(); let c: i64 = kani::any();
        roundtrip(vec![a, b, c]);
    }

    #[kani::proof]
    fn vx_canary() {
        let x: u8 = kani::any();
        assert!(x < 200, "[canary] must fail");
    }
} // mod proofs
