// U04k (Kani, complete): IntegerColumn::new_boxed - interval and width / offset choice (slice) for every (min, max).
#![allow(dead_code, unused_imports, unused_mut, unused_variables)]
include!("types.rs");

// shims recording the choice (Column construction, DataSection, create_col are replaced; listed as trusted glue)
pub enum DataSection { I64(Vec<i64>), Bitvec(Vec<u8>), Other }
impl From<Vec<i64>> for DataSection { fn from(v: Vec<i64>) -> DataSection { DataSection::I64(v) } }
pub struct Column { pub bits: u32, pub offset: i64, pub tag: Option<EncodingType>, pub ops: Vec<CodecOp> }
impl Column {
    pub fn new(_name: &str, _len: usize, _range: Option<(i64, i64)>, codec: Vec<CodecOp>, _data: Vec<DataSection>) -> Column {
        Column { bits: 64, offset: 0, tag: None, ops: codec }
    }
}
pub trait Width { const BITS: u32; }
impl Width for u8 { const BITS: u32 = 8; }
impl Width for u16 { const BITS: u32 = 16; }
impl Width for u32 { const BITS: u32 = 32; }
pub struct IntegerColumn;
impl IntegerColumn {
    pub fn create_col<T: Width>(_name: &str, _values: Vec<i64>, offset: i64, _min: i64, _max: i64, _delta: bool, _null: Option<Vec<u8>>, t: EncodingType) -> Column {
        Column { bits: T::BITS, offset, tag: Some(t), ops: vec![] }
    }
}
include!("branch.rs");

#[cfg(kani)]
mod proofs {
    use super::*;

    // C01: "every integer magnitude class (fits u8/u16/u32 with or without offset, full i64)"
    #[kani::proof]
    #[kani::unwind(6)]
    fn width_offset_choice() {
        let min: i64 = kani::any();
        let max: i64 = kani::any();
        kani::assume(min <= max);
        let delta: bool = kani::any();
        let null = if kani::any() { Some(Vec::new()) } else { None };
        let c = choose("c", Vec::new(), min, max, min, max, delta, null, Some((min, max)));
        kani::cover!(c.bits == 8 && c.offset != 0, "vacuity: u8 with offset reachable");
        kani::cover!(c.bits == 64, "vacuity: full i64 reachable");
        if c.bits < 64 {
            let lo = min as i128 - c.offset as i128;
            let hi = max as i128 - c.offset as i128;
            assert!(lo >= 0, "[fits-low] every value minus the offset is non-negative");
            assert!(hi < (1i128 << c.bits), "[fits-high] every value minus the offset fits the chosen width");
            assert!(c.offset == 0 || c.offset == min, "[offset] the offset is 0 or the column minimum");
            match c.tag {
                Some(EncodingType::U8) => assert!(c.bits == 8, "[tag-width] tag matches the width"),
                Some(EncodingType::U16) => assert!(c.bits == 16, "[tag-width] tag matches the width"),
                Some(EncodingType::U32) => assert!(c.bits == 32, "[tag-width] tag matches the width"),
                _ => assert!(false, "[tag-width] narrow columns carry a narrow tag"),
            }
        }
        // narrowest representation: if the range fits a narrower width, it is used (storage only; not a correctness obligation)
    }

    #[kani::proof]
    fn vx_canary() {
        let x: u8 = kani::any();
        assert!(x < 200, "[canary] must fail");
    }
} // mod proofs
