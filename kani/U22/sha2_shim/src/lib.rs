// Stand-in for the `sha2` crate (A-sha): same API surface as used by inner_locustdb::subpartition; the digest is only
// formatted into a file-name key for column names that are not file-system safe, never compared by the routing code.
pub struct Sha256 { acc: u64 }
pub struct Output(pub u64);
pub trait Digest { fn new() -> Self; fn update(&mut self, data: impl AsRef<[u8]>); fn finalize(self) -> Output; }
impl Digest for Sha256 {
    fn new() -> Self { Sha256 { acc: 7 } }
    fn update(&mut self, data: impl AsRef<[u8]>) { for b in data.as_ref() { self.acc = self.acc.wrapping_mul(31).wrapping_add(*b as u64); } }
    fn finalize(self) -> Output { Output(self.acc) }
}
impl std::fmt::LowerHex for Output { fn fmt(&self, f: &mut std::fmt::Formatter<'_>) -> std::fmt::Result { std::fmt::LowerHex::fmt(&self.0, f) } }
