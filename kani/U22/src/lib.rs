// U22 (Kani, BOUNDED): column -> file routing (C15).  Real code: inner_locustdb::subpartition (how the columns of a
// partition are split into files), the construction of the lookup map in flush_table_buffer (slice) and
// PartitionMetadata::subpartition_key (how a reader finds the file of a column).
// Bound: 3 columns of 1 byte, two fixed name sets (mixed case; prefixes of one another), size limit symbolic in 1..=3.
#![allow(dead_code, unused_imports)]
#![feature(btree_cursors)]
use std::collections::BTreeMap;
use std::mem;
use std::sync::atomic::AtomicBool;
use std::sync::Arc;
// shims (R10): a column is its name and its size; only the size limit of Options is read
pub struct Column { pub nm: String, pub size: usize }
impl Column { pub fn name(&self) -> &str { &self.nm } pub fn heap_size_of_children(&self) -> usize { self.size } }
pub struct Options { pub max_partition_size_bytes: u64 }
include!("routing.rs");

#[cfg(kani)]
mod proofs {
    use super::*;

    // fixed name sets (concrete), every column 1 byte, symbolic size limit in 1..=3: the limit decides the grouping
    // (one column per file / two + one / all in one file)
    fn run(names: [&str; 3]) {
        let limit: u8 = kani::any();
        kani::assume(limit >= 1 && limit <= 3);
        let cols: Vec<Arc<Column>> = vec![
            Arc::new(Column { nm: names[0].to_string(), size: 1 }),
            Arc::new(Column { nm: names[1].to_string(), size: 1 }),
            Arc::new(Column { nm: names[2].to_string(), size: 1 })];
        let opts = Options { max_partition_size_bytes: limit as u64 };
        let (metadata, files) = subpartition(&opts, cols);
        kani::cover!(files.len() == 3, "vacuity: one column per file reachable");
        kani::cover!(files.len() == 2, "vacuity: two files reachable");
        kani::cover!(files.len() == 1, "vacuity: single file reachable");
        assert!(metadata.len() == files.len(), "[one-entry-per-file] one metadata entry per file");
        let mut total = 0;
        for f in files.iter() { total += f.len(); }
        assert!(total == 3, "[every-column-once] every column lands in exactly one file");
        let lookup = build_lookup(&metadata);
        let pm = PartitionMetadata { subpartitions: metadata, subpartitions_by_last_column: lookup };
        for k in 0..files.len() {
            for c in files[k].iter() {
                let key = pm.subpartition_key(c.name());
                assert!(key.as_deref() == Some(pm.subpartitions[k].subpartition_key.as_str()), "[found-in-own-file] a column is routed to the file it was written to");
            }
        }
        // a name that sorts after every stored column is recognised as absent
        assert!(pm.subpartition_key("~").is_none(), "[absent-above-all] a column name above all stored names routes to no file");
    }
    #[kani::proof]
    #[kani::unwind(6)]
    fn mixed_case_names_found() { run(["a", "B", "c"]); }
    #[kani::proof]
    #[kani::unwind(6)]
    fn prefix_names_found() { run(["ab", "a", "abc"]); }

    #[kani::proof]
    fn vx_canary() {
        let x: u8 = kani::any();
        assert!(x < 200, "[canary] must fail");
    }
} // mod proofs
