// U22 (Kani, BOUNDED): column -> file routing (C15).  Real code: inner_locustdb::subpartition (how the columns of a
// partition are split into files), the construction of the lookup map in flush_table_buffer (slice) and
// PartitionMetadata::subpartition_key (how a reader finds the file of a column).
// Bound: 3 columns, names of one ASCII letter or digit (upper / lower case), sizes and size limit symbolic.
#![allow(dead_code, unused_imports)]
#![feature(btree_cursors)]
use std::collections::BTreeMap;
use std::mem;
use std::sync::atomic::AtomicBool;
use std::sync::Arc;
// shims (R10): a column is its name and its size; only the size limit of Options is read
pub struct Column { pub nm: String, pub size: usize }
impl Column { pub fn name(&self) -> &str { &self.nm } pub fn heap_size_of_children(&self) -> usize { self.size } }
pub struct Options { pub max_partition_size_bytes: u64 }
include!("routing.rs");

#[cfg(kani)]
mod proofs {
    use super::*;

    fn any_name() -> String {
        let k: u8 = kani::any();
        kani::assume(k < 6);
        // names that sort differently by byte order and case-insensitively: "A" < "B" < "a" < "b" (bytes), plus "_" and "0"
        let c = match k { 0 => 'A', 1 => 'B', 2 => 'a', 3 => 'b', 4 => '_', _ => '0' };
        let mut s = String::new();
        s.push(c);
        s
    }

    #[kani::proof]
    #[kani::unwind(6)]
    fn every_column_is_found_in_its_file() {
        let names = [any_name(), any_name(), any_name()];
        kani::assume(names[0] != names[1] && names[0] != names[2] && names[1] != names[2]); // column names are unique
        let sizes: [u8; 3] = kani::any();
        let limit: u8 = kani::any();
        let cols: Vec<Arc<Column>> = (0..3).map(|i| Arc::new(Column { nm: names[i].clone(), size: sizes[i] as usize })).collect();
        let opts = Options { max_partition_size_bytes: limit as u64 };
        let (metadata, files) = subpartition(&opts, cols);
        kani::cover!(files.len() == 3, "vacuity: one column per file reachable");
        kani::cover!(files.len() == 1, "vacuity: single file reachable");
        assert!(metadata.len() == files.len(), "[one-entry-per-file] one metadata entry per file");
        let total: usize = files.iter().map(|f| f.len()).sum();
        assert!(total == 3, "[every-column-once] every column lands in exactly one file");
        let lookup = build_lookup(&metadata);
        let pm = PartitionMetadata { subpartitions: metadata, subpartitions_by_last_column: lookup };
        for k in 0..files.len() {
            for c in files[k].iter() {
                let key = pm.subpartition_key(c.name());
                assert!(key.as_deref() == Some(pm.subpartitions[k].subpartition_key.as_str()), "[found-in-own-file] a column is routed to the file it was written to");
            }
        }
        // a name that sorts after every stored column is recognised as absent
        assert!(pm.subpartition_key("~").is_none(), "[absent-above-all] a column name above all stored names routes to no file");
    }

    #[kani::proof]
    fn vx_canary() {
        let x: u8 = kani::any();
        assert!(x < 200, "[canary] must fail");
    }
} // mod proofs
