// U22 (Kani, BOUNDED): column -> file routing (C15).  Real code: inner_locustdb::subpartition (how the columns of a
// partition are split into files), the construction of the lookup map in flush_table_buffer (slice) and
// PartitionMetadata::subpartition_key (how a reader finds the file of a column).
// Bound: 3 columns of 1 byte, two fixed name sets (mixed case; prefixes of one another), size limit symbolic in 1..=3.
#![allow(dead_code, unused_imports)]
#![feature(btree_cursors)]
use std::collections::BTreeMap;
use std::mem;
use std::sync::atomic::AtomicBool;
use std::sync::Arc;
// shims (R10): a column is its name and its size; only the size limit of Options is read
pub struct Column { pub nm: String, pub size: usize }
impl Column { pub fn name(&self) -> &str { &self.nm } pub fn heap_size_of_children(&self) -> usize { self.size } }
pub struct Options { pub max_partition_size_bytes: u64 }
include!("routing.rs");

#[cfg(kani)]
mod proofs {
    use super::*;

    // Writer-side contract that makes the reader's BTreeMap::lower_bound lookup (byte order of String, A-btree) find every
    // column: files hold runs of the columns in ascending byte order of their names, and each file is keyed by its last name.
    // Fixed (concrete) name sets, every column 1 byte, symbolic size limit in 1..=3: the limit decides the grouping.
    fn run(names: [&'static str; 3]) {
        let limit: u8 = kani::any();
        kani::assume(limit >= 1 && limit <= 3);
        let cols: Vec<Arc<Column>> = vec![
            Arc::new(Column { nm: names[0].to_string(), size: 1 }),
            Arc::new(Column { nm: names[1].to_string(), size: 1 }),
            Arc::new(Column { nm: names[2].to_string(), size: 1 })];
        let opts = Options { max_partition_size_bytes: limit as u64 };
        let (acc, last_column) = subpartition_layout(&opts, cols);
        let files = &acc.subpartitions;
        let metadata = &acc.subpartition_metadata;
        kani::cover!(files.len() == 3, "vacuity: one column per file reachable");
        kani::cover!(files.len() == 2, "vacuity: two files reachable");
        kani::cover!(files.len() == 1, "vacuity: single file reachable");
        assert!(metadata.len() == files.len(), "[one-entry-per-file] one metadata entry per file");
        let mut total = 0;
        let mut prev: Option<&str> = None;
        for k in 0..files.len() {
            assert!(!files[k].is_empty(), "[no-empty-file] no file without columns");
            for c in files[k].iter() {
                if let Some(p) = prev { assert!(p.as_bytes() < c.name().as_bytes(), "[byte-order] columns are laid out in ascending byte order of their names, within and across files"); }
                prev = Some(c.name());
                total += 1;
            }
            let last = files[k][files[k].len() - 1].name();
            assert!(metadata[k].0.len() == files[k].len() && metadata[k].0[files[k].len() - 1].as_str() == last, "[keyed-by-last-column] the name list of a file ends with the last (greatest) column name it holds - the name the file is keyed by");
        }
        assert!(total == 3, "[every-column-once] every column lands in exactly one file");
        assert!(prev == Some(last_column.as_str()), "[single-file-key] the greatest column name overall is tracked (key bound of a single-file partition)");
    }
    #[kani::proof]
    #[kani::unwind(6)]
    fn mixed_case_names_layout() { run(["a", "B", "c"]); }
    #[kani::proof]
    #[kani::unwind(6)]
    fn prefix_names_layout() { run(["ab", "a", "abc"]); }

    #[kani::proof]
    fn vx_canary() {
        let x: u8 = kani::any();
        assert!(x < 200, "[canary] must fail");
    }
} // mod proofs
