// U28 (Kani, BOUNDED in the number of group-by columns): batch_merging::combine - how the grouping keys of two partial
// aggregation results are merged when there are two or more GROUP BY columns (C02 / C04): partition on the first key,
// refine by every middle key in order, merge on the last key, then replay the merge on every other key column.
// Real code: buffer.rs whole (#[path]); EncodingType, unify_types, null_to_val (items); the else-branch of combine (slice).
#![allow(dead_code, unused_imports, unused_variables, unused_macros, non_camel_case_types)]
pub mod shim { include!("../common_shim.rs"); }
pub use shim::QueryError;
macro_rules! ensure { ($c:expr, $($t:tt)*) => { if !$c { return Err(QueryError::FatalError); } }; }
pub mod engine { pub mod data_types {
    pub use crate::tys::*;
    pub type of64 = ordered_float::OrderedFloat<f64>;
    #[derive(Clone, Copy, Debug, PartialEq, Eq, Hash)] pub struct MergeOp;
    #[derive(Clone, Copy, Debug, PartialEq, Eq, Hash)] pub struct Premerge;
    #[derive(Clone, Copy, Debug, PartialEq, Eq, Hash)] pub struct ValRows<'a>(pub std::marker::PhantomData<&'a ()>);
} }
pub mod ingest { pub mod raw_val { #[derive(Clone, Copy, Debug, PartialEq, Eq, Hash)] pub struct RawVal; } }
pub mod mem_store { pub mod value { #[derive(Clone, Copy, Debug, PartialEq, Eq, Hash)] pub struct Val<'a>(pub std::marker::PhantomData<&'a ()>); } }
pub mod tys { include!("types.rs"); }
#[path = "@REPO@/src/engine/execution/buffer.rs"]
pub mod buffer;
use crate::buffer::*;
use crate::engine::data_types::*;
use std::marker::PhantomData;

// A-astbuilder: a generated planner method creates the node named after it from its arguments, in order, and returns the
// node's output buffer(s).  The stand-in records the calls.
#[derive(Clone, Copy, PartialEq, Debug)]
pub enum Node {
    Partition { l: usize, r: usize, limit: usize, out: usize },
    Subpartition { prev: usize, l: usize, r: usize, out: usize },
    MergeDedupPartitioned { partitioning: usize, l: usize, r: usize, ops: usize, merged: usize },
    MergeDrop { ops: usize, l: usize, r: usize, out: usize },
    Cast { input: usize, out: usize },
}
pub const LOG: usize = 12;
pub struct QueryPlanner { pub log: [Option<Node>; LOG], pub len: usize, pub next: usize }
impl QueryPlanner {
    fn fresh(&mut self) -> usize { self.next += 1; self.next }
    fn rec(&mut self, n: Node) { if self.len < LOG { self.log[self.len] = Some(n); } self.len += 1; }
    pub fn partition(&mut self, l: TypedBufferRef, r: TypedBufferRef, limit: usize, _desc: bool) -> BufferRef<Premerge> {
        let out = self.fresh(); self.rec(Node::Partition { l: l.buffer.i, r: r.buffer.i, limit, out }); BufferRef { i: out, name: "partitioning", t: PhantomData } }
    pub fn subpartition(&mut self, p: BufferRef<Premerge>, l: TypedBufferRef, r: TypedBufferRef, _desc: bool) -> BufferRef<Premerge> {
        let out = self.fresh(); self.rec(Node::Subpartition { prev: p.i, l: l.buffer.i, r: r.buffer.i, out }); BufferRef { i: out, name: "subpartitioning", t: PhantomData } }
    pub fn merge_deduplicate_partitioned(&mut self, p: BufferRef<Premerge>, l: TypedBufferRef, r: TypedBufferRef) -> (BufferRef<MergeOp>, TypedBufferRef) {
        let ops = self.fresh(); let merged = self.fresh();
        self.rec(Node::MergeDedupPartitioned { partitioning: p.i, l: l.buffer.i, r: r.buffer.i, ops, merged });
        (BufferRef { i: ops, name: "ops", t: PhantomData }, TypedBufferRef::new(BufferRef { i: merged, name: "merged", t: PhantomData }, l.tag)) }
    pub fn merge_drop(&mut self, ops: BufferRef<MergeOp>, l: TypedBufferRef, r: TypedBufferRef) -> TypedBufferRef {
        let out = self.fresh(); self.rec(Node::MergeDrop { ops: ops.i, l: l.buffer.i, r: r.buffer.i, out }); TypedBufferRef::new(BufferRef { i: out, name: "merged", t: PhantomData }, l.tag) }
    pub fn cast(&mut self, input: TypedBufferRef, t: EncodingType) -> TypedBufferRef {
        let out = self.fresh(); self.rec(Node::Cast { input: input.buffer.i, out }); TypedBufferRef::new(BufferRef { i: out, name: "casted", t: PhantomData }, t) }
}
include!("combine.rs");

#[cfg(kani)]
mod proofs {
    use super::*;
    const LP: [usize; 5] = [1, 3, 0, 4, 2]; // where the n group-by columns sit among the left / right result columns
    const RP: [usize; 5] = [2, 0, 4, 1, 3];
    fn col(i: usize) -> TypedBufferRef { TypedBufferRef::new(BufferRef { i, name: "c", t: PhantomData }, EncodingType::I64) }
    fn run(n: usize) {
        let left = vec![col(10), col(11), col(12), col(13), col(14)];
        let right = vec![col(20), col(21), col(22), col(23), col(24)];
        let lprojection: Vec<usize> = LP[..n].to_vec();
        let rprojection: Vec<usize> = RP[..n].to_vec();
        let limit: usize = kani::any();
        let (cols, ops, qp) = merge_group_by_plan(QueryPlanner { log: [None; LOG], len: 0, next: 100 }, &left, &right, &lprojection, &rprojection, limit);
        let log = |k: usize| qp.log[k].unwrap();
        let key = |k: usize| (10 + LP[k], 20 + RP[k]); // buffers of the k-th grouping key on the left / right
        assert!(qp.len == 2 * n - 1, "[node-count] one partition/subpartition/merge node per key and one replay node per key but the last, nothing else (no casts for equal types)");
        // the partitioning chain: key 0, then every middle key in order, each refining the previous one
        let mut prev = 0;
        for k in 0..n - 1 {
            let (l, r) = key(k);
            match log(k) {
                Node::Partition { l: a, r: b, limit: lim, out } if k == 0 => { assert!(a == l && b == r && lim == limit, "[partition-first-key] rows are first partitioned by the first grouping key"); prev = out; }
                Node::Subpartition { prev: p, l: a, r: b, out } if k > 0 => { assert!(p == prev && a == l && b == r, "[refine-by-every-middle-key] every middle grouping key refines the partitioning, in order"); prev = out; }
                _ => assert!(false, "[refine-by-every-middle-key] every middle grouping key refines the partitioning, in order"),
            }
        }
        let (l, r) = key(n - 1);
        let (mops, merged) = match log(n - 1) {
            Node::MergeDedupPartitioned { partitioning, l: a, r: b, ops: o, merged: m } => { assert!(partitioning == prev && a == l && b == r, "[merge-on-last-key] the last grouping key is merged inside the finest partitioning"); (o, m) }
            _ => { assert!(false, "[merge-on-last-key] the last grouping key is merged inside the finest partitioning"); (0, 0) }
        };
        assert!(ops.i == mops, "[ops-returned] the merge schedule handed to the aggregates is the one computed on the keys");
        assert!(cols.len() == n && cols[n - 1].i == merged, "[last-key-column] the merged last key is the last output key column");
        for k in 0..n - 1 {
            let (l, r) = key(k);
            match log(n + k) {
                Node::MergeDrop { ops: o, l: a, r: b, out } => assert!(o == mops && a == l && b == r && cols[k].i == out, "[replay-on-other-keys] every other key column is merged by replaying the same schedule on its own left / right buffers"),
                _ => assert!(false, "[replay-on-other-keys] every other key column is merged by replaying the same schedule on its own left / right buffers"),
            }
        }
    }
    #[kani::proof]
    #[kani::unwind(7)]
    fn two_group_by_columns() { run(2); }
    #[kani::proof]
    #[kani::unwind(7)]
    fn three_group_by_columns() { run(3); }
    #[kani::proof]
    #[kani::unwind(7)]
    fn four_group_by_columns() { run(4); }
    #[kani::proof]
    #[kani::unwind(8)]
    fn five_group_by_columns() { run(5); }
    fn any_tag() -> EncodingType {
        let k: u8 = kani::any();
        kani::assume(k < 30);
        use EncodingType::*;
        match k {
            0 => Str, 1 => I64, 2 => U8, 3 => U16, 4 => U32, 5 => U64, 6 => F64, 7 => Val, 8 => USize, 9 => Bitvec,
            10 => NullableStr, 11 => NullableI64, 12 => NullableU8, 13 => NullableU16, 14 => NullableU32, 15 => NullableU64, 16 => NullableF64,
            17 => OptStr, 18 => Null, 19 => ScalarI64, 20 => ScalarF64, 21 => ScalarStr, 22 => ScalarString, 23 => ConstVal,
            24 => ByteSlices(kani::any()), 25 => ValRows, 26 => Premerge, _ => MergeOp,
        }
    }
    // two partial results may carry the same column with different types (a column that is a string in one partition and an
    // integer in another; C01: "degrades to the documented common type"): before the merge both sides are brought to one type,
    // whatever the two types are - never a panic
    #[kani::proof]
    fn unify_types_gives_one_type() {
        let l = TypedBufferRef::new(BufferRef { i: 1, name: "l", t: PhantomData }, any_tag());
        let r = TypedBufferRef::new(BufferRef { i: 2, name: "r", t: PhantomData }, any_tag());
        let mut qp = QueryPlanner { log: [None; LOG], len: 0, next: 100 };
        let (l2, r2) = unify_types(&mut qp, l, r);
        assert!(l2.tag == r2.tag, "[one-type] after unification both sides of the merge have the same type");
        assert!((l2.tag == l.tag && l2.buffer.i == l.buffer.i) || qp.len >= 1, "[cast-recorded] a side whose type changes goes through a cast node");
    }
    #[kani::proof]
    fn vx_canary() {
        let x: u8 = kani::any();
        assert!(x < 200, "[canary] must fail");
    }
} // mod proofs
