// U28 (Kani, BOUNDED in the number of group-by columns): batch_merging::combine - how the grouping keys of two partial
// aggregation results are merged when there are two or more GROUP BY columns (C02 / C04): partition on the first key,
// refine by every middle key in order, merge on the last key, then replay the merge on every other key column.
// Real code: buffer.rs whole (#[path]); EncodingType, unify_types, null_to_val (items); the else-branch of combine (slice).
#![allow(dead_code, unused_imports, unused_variables, unused_macros, non_camel_case_types)]
pub mod shim { include!("../common_shim.rs"); }
pub use shim::QueryError;
macro_rules! ensure { ($c:expr, $($t:tt)*) => { if !$c { return Err(QueryError::FatalError); } }; }
pub mod engine { pub mod data_types {
    pub use crate::tys::*;
    pub type of64 = ordered_float::OrderedFloat<f64>;
    #[derive(Clone, Copy, Debug, PartialEq, Eq, Hash)] pub struct Premerge;
    #[derive(Clone, Copy, Debug, PartialEq, Eq, Hash)] pub struct ValRows<'a>(pub std::marker::PhantomData<&'a ()>);
} }
pub mod ingest { pub mod raw_val { #[derive(Clone, Copy, Debug, PartialEq, Eq, Hash)] pub struct RawVal; } }
pub mod mem_store { pub mod value { #[derive(Clone, Copy, Debug, PartialEq, Eq, Hash)] pub struct Val<'a>(pub std::marker::PhantomData<&'a ()>); } }
pub mod tys { include!("types.rs"); }
#[path = "@REPO@/src/engine/execution/buffer.rs"]
pub mod buffer;
use crate::buffer::*;
use crate::engine::data_types::*;
use std::marker::PhantomData;

// A-astbuilder: a generated planner method creates the node named after it from its arguments, in order, and returns the
// node's output buffer(s).  The stand-in records the calls.
#[derive(Clone, Copy, PartialEq, Debug)]
pub enum Node {
    ConstantVec { index: usize, out: usize },
    Partition { l: usize, r: usize, limit: usize, desc: bool, out: usize },
    Subpartition { prev: usize, l: usize, r: usize, desc: bool, out: usize },
    MergeDedup { l: usize, r: usize, ops: usize, merged: usize },
    MergeDedupPartitioned { partitioning: usize, l: usize, r: usize, ops: usize, merged: usize },
    MergeDrop { ops: usize, l: usize, r: usize, out: usize },
    MergeAggregate { ops: usize, l: usize, r: usize, aggregator: Aggregator, out: usize },
    Merge { l: usize, r: usize, limit: usize, desc: bool, ops: usize, merged: usize },
    MergePartitioned { partitioning: usize, l: usize, r: usize, limit: usize, desc: bool, ops: usize, merged: usize },
    MergeKeep { ops: usize, l: usize, r: usize, out: usize },
    Cast { input: usize, to: EncodingType, out: usize },
}
pub const LOG: usize = 16;
pub struct QueryPlanner { pub log: [Option<Node>; LOG], pub len: usize, pub next: usize }
fn buf<T>(i: usize, name: &'static str) -> BufferRef<T> { BufferRef { i, name, t: PhantomData } }
impl QueryPlanner {
    fn fresh(&mut self) -> usize { self.next += 1; self.next }
    fn rec(&mut self, n: Node) { if self.len < LOG { self.log[self.len] = Some(n); } self.len += 1; }
    pub fn constant_vec(&mut self, index: usize, t: EncodingType) -> TypedBufferRef {
        let out = self.fresh(); self.rec(Node::ConstantVec { index, out }); TypedBufferRef::new(buf(out, "constant_vec"), t) }
    pub fn partition(&mut self, l: TypedBufferRef, r: TypedBufferRef, limit: usize, desc: bool) -> BufferRef<Premerge> {
        let out = self.fresh(); self.rec(Node::Partition { l: l.buffer.i, r: r.buffer.i, limit, desc, out }); buf(out, "partitioning") }
    pub fn subpartition(&mut self, p: BufferRef<Premerge>, l: TypedBufferRef, r: TypedBufferRef, desc: bool) -> BufferRef<Premerge> {
        let out = self.fresh(); self.rec(Node::Subpartition { prev: p.i, l: l.buffer.i, r: r.buffer.i, desc, out }); buf(out, "subpartitioning") }
    pub fn merge_deduplicate(&mut self, l: TypedBufferRef, r: TypedBufferRef) -> (BufferRef<MergeOp>, TypedBufferRef) {
        let ops = self.fresh(); let merged = self.fresh();
        self.rec(Node::MergeDedup { l: l.buffer.i, r: r.buffer.i, ops, merged });
        (buf(ops, "ops"), TypedBufferRef::new(buf(merged, "merged"), l.tag)) }
    pub fn merge_deduplicate_partitioned(&mut self, p: BufferRef<Premerge>, l: TypedBufferRef, r: TypedBufferRef) -> (BufferRef<MergeOp>, TypedBufferRef) {
        let ops = self.fresh(); let merged = self.fresh();
        self.rec(Node::MergeDedupPartitioned { partitioning: p.i, l: l.buffer.i, r: r.buffer.i, ops, merged });
        (buf(ops, "ops"), TypedBufferRef::new(buf(merged, "merged"), l.tag)) }
    pub fn merge_drop(&mut self, ops: BufferRef<MergeOp>, l: TypedBufferRef, r: TypedBufferRef) -> TypedBufferRef {
        let out = self.fresh(); self.rec(Node::MergeDrop { ops: ops.i, l: l.buffer.i, r: r.buffer.i, out }); TypedBufferRef::new(buf(out, "merged"), l.tag) }
    pub fn merge_aggregate(&mut self, ops: BufferRef<MergeOp>, l: TypedBufferRef, r: TypedBufferRef, aggregator: Aggregator) -> TypedBufferRef {
        let out = self.fresh(); self.rec(Node::MergeAggregate { ops: ops.i, l: l.buffer.i, r: r.buffer.i, aggregator, out }); TypedBufferRef::new(buf(out, "aggregated"), l.tag) }
    pub fn merge(&mut self, l: TypedBufferRef, r: TypedBufferRef, limit: usize, desc: bool) -> (BufferRef<MergeOp>, TypedBufferRef) {
        let ops = self.fresh(); let merged = self.fresh();
        self.rec(Node::Merge { l: l.buffer.i, r: r.buffer.i, limit, desc, ops, merged });
        (buf(ops, "merge_ops"), TypedBufferRef::new(buf(merged, "merged"), l.tag)) }
    pub fn merge_partitioned(&mut self, p: BufferRef<Premerge>, l: TypedBufferRef, r: TypedBufferRef, limit: usize, desc: bool) -> (BufferRef<MergeOp>, TypedBufferRef) {
        let ops = self.fresh(); let merged = self.fresh();
        self.rec(Node::MergePartitioned { partitioning: p.i, l: l.buffer.i, r: r.buffer.i, limit, desc, ops, merged });
        (buf(ops, "merge_ops"), TypedBufferRef::new(buf(merged, "merged"), l.tag)) }
    pub fn merge_keep(&mut self, ops: BufferRef<MergeOp>, l: TypedBufferRef, r: TypedBufferRef) -> TypedBufferRef {
        let out = self.fresh(); self.rec(Node::MergeKeep { ops: ops.i, l: l.buffer.i, r: r.buffer.i, out }); TypedBufferRef::new(buf(out, "merged"), l.tag) }
    pub fn cast(&mut self, input: TypedBufferRef, t: EncodingType) -> TypedBufferRef {
        let out = self.fresh(); self.rec(Node::Cast { input: input.buffer.i, to: t, out }); TypedBufferRef::new(buf(out, "casted"), t) }
}
include!("combine.rs");

#[cfg(kani)]
mod proofs {
    use super::*;
    const LP: [usize; 5] = [1, 3, 0, 4, 2]; // where the n group-by / sort columns sit among the left / right result columns
    const RP: [usize; 5] = [2, 0, 4, 1, 3];
    fn col(i: usize) -> TypedBufferRef { TypedBufferRef::new(buf(i, "c"), EncodingType::I64) }
    fn fcol(i: usize) -> TypedBufferRef { TypedBufferRef::new(buf(i, "c"), EncodingType::F64) }
    fn planner() -> QueryPlanner { QueryPlanner { log: [None; LOG], len: 0, next: 100 } }
    // aggregation query with n group-by columns and three aggregates: (int, int), (int, float), (float, int) partial results
    fn run(n: usize) {
        let left = vec![col(10), col(11), col(12), col(13), col(14), col(15), col(16), fcol(17)];
        let right = vec![col(20), col(21), col(22), col(23), col(24), col(25), col(26), fcol(27)];
        let lprojection: Vec<usize> = LP[..n].to_vec();
        let rprojection: Vec<usize> = RP[..n].to_vec();
        let aggs1 = vec![(6, Aggregator::SumI64), (5, Aggregator::MaxF64), (7, Aggregator::MinF64)];
        let aggs2 = vec![(5, Aggregator::SumI64), (7, Aggregator::MaxF64), (6, Aggregator::MinF64)];
        let limit: usize = kani::any();
        let mut data: Vec<Box<Vec<MergeOp>>> = Vec::new();
        let (cols, ops, aggregates, qp) = match merge_aggregation_plan(planner(), &mut data, &left, &right, &lprojection, &rprojection, &aggs1, &aggs2, limit) {
            Ok(x) => x,
            Err(_) => { assert!(false, "[plan-built] merging two well-formed partial results is not an error"); return; }
        };
        let log = |k: usize| qp.log[k].unwrap();
        let key = |k: usize| (10 + LP[k], 20 + RP[k]); // buffers of the k-th grouping key on the left / right
        let key_nodes = if n == 0 { 1 } else { 2 * n - 1 };
        assert!(qp.len == key_nodes + 5, "[node-count] one partition/subpartition/merge node per key, one replay node per key but the last, one node per aggregate and one cast per mixed int/float aggregate, nothing else");
        let mops;
        if n == 0 {
            // no grouping key: each side has exactly one group, and the two are combined
            match log(0) {
                Node::ConstantVec { index, out } => { assert!(index == 0 && data.len() == 1 && *data[0] == vec![MergeOp::TakeLeft, MergeOp::MergeRight], "[no-key-schedule] without a grouping key the one group of the right result is merged into the one group of the left result"); mops = out; }
                _ => { assert!(false, "[no-key-schedule] without a grouping key the one group of the right result is merged into the one group of the left result"); mops = 0; }
            }
            assert!(cols.is_empty(), "[no-key-columns] no key columns are produced");
        } else if n == 1 {
            let (l, r) = key(0);
            match log(0) {
                Node::MergeDedup { l: a, r: b, ops: o, merged } => { assert!(a == l && b == r && cols.len() == 1 && cols[0].i == merged, "[merge-on-single-key] a single grouping key is merged by one deduplicating merge of its left / right buffers"); mops = o; }
                _ => { assert!(false, "[merge-on-single-key] a single grouping key is merged by one deduplicating merge of its left / right buffers"); mops = 0; }
            }
        } else {
            // the partitioning chain: key 0, then every middle key in order, each refining the previous one
            let mut prev = 0;
            for k in 0..n - 1 {
                let (l, r) = key(k);
                match log(k) {
                    Node::Partition { l: a, r: b, limit: lim, out, .. } if k == 0 => { assert!(a == l && b == r && lim == limit, "[partition-first-key] rows are first partitioned by the first grouping key"); prev = out; }
                    Node::Subpartition { prev: p, l: a, r: b, out, .. } if k > 0 => { assert!(p == prev && a == l && b == r, "[refine-by-every-middle-key] every middle grouping key refines the partitioning, in order"); prev = out; }
                    _ => assert!(false, "[refine-by-every-middle-key] every middle grouping key refines the partitioning, in order"),
                }
            }
            let (l, r) = key(n - 1);
            let merged;
            match log(n - 1) {
                Node::MergeDedupPartitioned { partitioning, l: a, r: b, ops: o, merged: m } => { assert!(partitioning == prev && a == l && b == r, "[merge-on-last-key] the last grouping key is merged inside the finest partitioning"); mops = o; merged = m; }
                _ => { assert!(false, "[merge-on-last-key] the last grouping key is merged inside the finest partitioning"); mops = 0; merged = 0; }
            }
            assert!(cols.len() == n && cols[n - 1].i == merged, "[last-key-column] the merged last key is the last output key column");
            for k in 0..n - 1 {
                let (l, r) = key(k);
                match log(n + k) {
                    Node::MergeDrop { ops: o, l: a, r: b, out } => assert!(o == mops && a == l && b == r && cols[k].i == out, "[replay-on-other-keys] every other key column is merged by replaying the same schedule on its own left / right buffers"),
                    _ => assert!(false, "[replay-on-other-keys] every other key column is merged by replaying the same schedule on its own left / right buffers"),
                }
            }
        }
        assert!(ops.i == mops, "[ops-returned] the merge schedule handed to the aggregates is the one computed on the keys");
        // the aggregates: each is combined under the key schedule from its own left / right partial column
        assert!(aggregates.len() == 3, "[one-output-per-aggregate] one combined column per aggregate");
        let k0 = key_nodes;
        match log(k0) {
            Node::MergeAggregate { ops: o, l, r, aggregator, out } => assert!(o == mops && l == 16 && r == 25 && aggregator == Aggregator::SumI64 && aggregates[0].0.i == out && aggregates[0].1 == Aggregator::SumI64, "[aggregate-merged-under-key-schedule] an aggregate is combined from its own left and right partial columns under the schedule computed on the keys, with its own aggregator"),
            _ => assert!(false, "[aggregate-merged-under-key-schedule] an aggregate is combined from its own left and right partial columns under the schedule computed on the keys, with its own aggregator"),
        }
        match (log(k0 + 1), log(k0 + 2)) {
            (Node::Cast { input, to, out: c }, Node::MergeAggregate { ops: o, l, r, aggregator, out }) => assert!(input == 15 && to == EncodingType::F64 && o == mops && l == c && r == 27 && aggregator == Aggregator::MaxF64 && aggregates[1].0.i == out, "[int-side-cast-to-float] when one partial result is integer and the other float, the integer side is converted and the float side is used as it is"),
            _ => assert!(false, "[int-side-cast-to-float] when one partial result is integer and the other float, the integer side is converted and the float side is used as it is"),
        }
        match (log(k0 + 3), log(k0 + 4)) {
            (Node::Cast { input, to, out: c }, Node::MergeAggregate { ops: o, l, r, aggregator, out }) => assert!(input == 26 && to == EncodingType::F64 && o == mops && l == 17 && r == c && aggregator == Aggregator::MinF64 && aggregates[2].0.i == out, "[int-side-cast-to-float] when one partial result is integer and the other float, the integer side is converted and the float side is used as it is"),
            _ => assert!(false, "[int-side-cast-to-float] when one partial result is integer and the other float, the integer side is converted and the float side is used as it is"),
        }
    }
    #[kani::proof]
    #[kani::unwind(7)]
    fn no_group_by_column() { run(0); }
    #[kani::proof]
    #[kani::unwind(7)]
    fn one_group_by_column() { run(1); }
    #[kani::proof]
    #[kani::unwind(7)]
    fn two_group_by_columns() { run(2); }
    #[kani::proof]
    #[kani::unwind(7)]
    fn three_group_by_columns() { run(3); }
    #[kani::proof]
    #[kani::unwind(7)]
    fn four_group_by_columns() { run(4); }
    #[kani::proof]
    #[kani::unwind(8)]
    fn five_group_by_columns() { run(5); }

    // ORDER BY query with n sort columns (any directions) and three output columns: the final sort column, a column that is
    // the final sort column on the left side only, and an unrelated column
    fn run_sorted(n: usize) {
        let left = vec![col(10), col(11), col(12), col(13), col(14)];
        let right = vec![col(20), col(21), col(22), col(23), col(24)];
        let desc: [bool; 3] = kani::any();
        let rdesc: [bool; 3] = kani::any();
        let mut ob1 = Vec::new();
        let mut ob2 = Vec::new();
        for k in 0..n { ob1.push((LP[k], desc[k])); ob2.push((RP[k], rdesc[k])); }
        let projection1 = vec![LP[n - 1], LP[n - 1], 4];
        let projection2 = vec![RP[n - 1], 1, 3];
        let limit: usize = kani::any();
        let (projection, order_by, merge_ops, qp) = merge_sorted_plan(planner(), &left, &right, &ob1, &ob2, &projection1, &projection2, limit);
        let log = |k: usize| qp.log[k].unwrap();
        let key = |k: usize| (10 + LP[k], 20 + RP[k]);
        assert!(qp.len == n + 2 + (n - 1), "[node-count] one node per sort column, one replay node per output column that is not the final sort column, one replay node per sort column but the last");
        let (mops, merged);
        if n == 1 {
            let (l, r) = key(0);
            match log(0) {
                Node::Merge { l: a, r: b, limit: lim, desc: d, ops: o, merged: m } => { assert!(a == l && b == r && lim == limit && d == desc[0], "[merge-on-single-sort-column] one sort column: the two sorted results are merged on it, in its direction, up to the limit"); mops = o; merged = m; }
                _ => { assert!(false, "[merge-on-single-sort-column] one sort column: the two sorted results are merged on it, in its direction, up to the limit"); mops = 0; merged = 0; }
            }
        } else {
            let mut prev = 0;
            for k in 0..n - 1 {
                let (l, r) = key(k);
                match log(k) {
                    Node::Partition { l: a, r: b, limit: lim, desc: d, out } if k == 0 => { assert!(a == l && b == r && lim == limit && d == desc[0], "[partition-first-sort-column] rows are first partitioned by the first sort column, in its direction"); prev = out; }
                    Node::Subpartition { prev: p, l: a, r: b, desc: d, out } if k > 0 => { assert!(p == prev && a == l && b == r && d == desc[k], "[refine-by-every-middle-sort-column] every middle sort column refines the partitioning, in order and in its own direction"); prev = out; }
                    _ => assert!(false, "[refine-by-every-middle-sort-column] every middle sort column refines the partitioning, in order and in its own direction"),
                }
            }
            let (l, r) = key(n - 1);
            match log(n - 1) {
                Node::MergePartitioned { partitioning, l: a, r: b, limit: lim, desc: d, ops: o, merged: m } => { assert!(partitioning == prev && a == l && b == r && lim == limit && d == desc[n - 1], "[merge-on-last-sort-column] the last sort column is merged inside the finest partitioning, in its direction, up to the limit"); mops = o; merged = m; }
                _ => { assert!(false, "[merge-on-last-sort-column] the last sort column is merged inside the finest partitioning, in its direction, up to the limit"); mops = 0; merged = 0; }
            }
        }
        assert!(merge_ops.i == mops, "[ops-returned] the schedule replayed on the other columns is the one computed on the sort columns");
        assert!(projection.len() == 3 && projection[0].i == merged, "[final-sort-column-output] an output column that is the final sort column on both sides is the merged sort column");
        match log(n) {
            Node::MergeKeep { ops: o, l, r, out } => assert!(o == mops && l == 10 + LP[n - 1] && r == 21 && projection[1].i == out, "[replay-on-output-columns] every other output column is merged by replaying the schedule on its own left / right buffers"),
            _ => assert!(false, "[replay-on-output-columns] every other output column is merged by replaying the schedule on its own left / right buffers"),
        }
        match log(n + 1) {
            Node::MergeKeep { ops: o, l, r, out } => assert!(o == mops && l == 14 && r == 23 && projection[2].i == out, "[replay-on-output-columns] every other output column is merged by replaying the schedule on its own left / right buffers"),
            _ => assert!(false, "[replay-on-output-columns] every other output column is merged by replaying the schedule on its own left / right buffers"),
        }
        assert!(order_by.len() == n, "[sort-columns-kept] the merged result carries one sort column per ORDER BY expression");
        for k in 0..n - 1 {
            let (l, r) = key(k);
            match log(n + 2 + k) {
                Node::MergeKeep { ops: o, l: a, r: b, out } => assert!(o == mops && a == l && b == r && order_by[k].0.i == out && order_by[k].1 == desc[k], "[replay-on-sort-columns] every sort column but the last is carried along by replaying the schedule, and keeps its direction"),
                _ => assert!(false, "[replay-on-sort-columns] every sort column but the last is carried along by replaying the schedule, and keeps its direction"),
            }
        }
        assert!(order_by[n - 1].0.i == merged && order_by[n - 1].1 == desc[n - 1], "[last-sort-column-kept] the last sort column of the merged result is the merged column, in its direction");
    }
    #[kani::proof]
    #[kani::unwind(7)]
    fn one_sort_column() { run_sorted(1); }
    #[kani::proof]
    #[kani::unwind(7)]
    fn two_sort_columns() { run_sorted(2); }
    #[kani::proof]
    #[kani::unwind(7)]
    fn three_sort_columns() { run_sorted(3); }
    fn any_tag() -> EncodingType {
        let k: u8 = kani::any();
        kani::assume(k < 30);
        use EncodingType::*;
        match k {
            0 => Str, 1 => I64, 2 => U8, 3 => U16, 4 => U32, 5 => U64, 6 => F64, 7 => Val, 8 => USize, 9 => Bitvec,
            10 => NullableStr, 11 => NullableI64, 12 => NullableU8, 13 => NullableU16, 14 => NullableU32, 15 => NullableU64, 16 => NullableF64,
            17 => OptStr, 18 => Null, 19 => ScalarI64, 20 => ScalarF64, 21 => ScalarStr, 22 => ScalarString, 23 => ConstVal,
            24 => ByteSlices(kani::any()), 25 => ValRows, 26 => Premerge, _ => MergeOp,
        }
    }
    // two partial results may carry the same column with different types (a column that is a string in one partition and an
    // integer in another; C01: "degrades to the documented common type"): before the merge both sides are brought to one type,
    // whatever the two types are - never a panic
    #[kani::proof]
    fn unify_types_gives_one_type() {
        let l = TypedBufferRef::new(BufferRef { i: 1, name: "l", t: PhantomData }, any_tag());
        let r = TypedBufferRef::new(BufferRef { i: 2, name: "r", t: PhantomData }, any_tag());
        let mut qp = QueryPlanner { log: [None; LOG], len: 0, next: 100 };
        let (l2, r2) = unify_types(&mut qp, l, r);
        assert!(l2.tag == r2.tag, "[one-type] after unification both sides of the merge have the same type");
        assert!((l2.tag == l.tag && l2.buffer.i == l.buffer.i) || qp.len >= 1, "[cast-recorded] a side whose type changes goes through a cast node");
    }
    #[kani::proof]
    fn vx_canary() {
        let x: u8 = kani::any();
        assert!(x < 200, "[canary] must fail");
    }
} // mod proofs
