// U41 (Kani, BOUNDED in the number of rows): the three hash-map grouping operators behind GROUP BY (C04: "each distinct
// combination of grouping values yields exactly one output row").  Real code: the body of HashMapGrouping<T>::execute after its
// scratchpad bindings, and the bodies of HashMapGroupingByteSlices::execute / HashMapGroupingValRows::execute from the
// creation of their map (statement slices); ByteSlices, ValRows, Val (items).
// Bound: 4 rows (two batches of 2 for the streaming operator), row length 2 for the multi-column operators; every value symbolic.
#![allow(dead_code, unused_imports, unused_variables, unused_mut)]
use std::cell::{Ref, RefCell, RefMut};
use ordered_float::OrderedFloat;
pub trait Data<'a> { fn len(&self) -> usize; }
#[derive(Debug, Clone, Copy, PartialEq)]
pub enum RawVal { Int(i64) }

// A-hashmap: contract of the map the operators use (fnv::FnvHashMap = std HashMap with a lawful Hash/Eq key):
// entry(k).or_insert_with(f) gives the value stored under a key equal to k; f runs, and its result is stored under k, only
// when no such key is present.  Stand-in: an association list with exactly that behaviour.
pub const CAP: usize = 6;
pub struct FnvHashMap<K, V> { pub slots: [Option<(K, V)>; CAP], pub len: usize }
impl<K: Copy, V: Copy> Default for FnvHashMap<K, V> { fn default() -> Self { FnvHashMap { slots: [None; CAP], len: 0 } } }
pub struct Entry<'m, K, V> { map: &'m mut FnvHashMap<K, V>, key: K }
impl<K: Copy + PartialEq, V: Copy> FnvHashMap<K, V> {
    pub fn entry(&mut self, key: K) -> Entry<'_, K, V> { Entry { map: self, key } }
}
impl<'m, K: Copy + PartialEq, V: Copy> Entry<'m, K, V> {
    pub fn or_insert_with<F: FnOnce() -> V>(self, f: F) -> &'m mut V {
        let mut found = CAP;
        for j in 0..CAP { if j < self.map.len { if let Some((k, _)) = &self.map.slots[j] { if *k == self.key && found == CAP { found = j; } } } }
        if found == CAP {
            assert!(self.map.len < CAP);
            found = self.map.len;
            self.map.slots[found] = Some((self.key, f()));
            self.map.len += 1;
        }
        match &mut self.map.slots[found] { Some((_, v)) => v, None => unreachable!() }
    }
}
pub struct GroupingState<T> { pub map: FnvHashMap<T, u32> }
include!("grouping.rs");

#[cfg(kani)]
mod proofs {
    use super::*;
    const N: usize = 4;
    // the contract of a grouping pass over rows `keys` (compared with `same`): `grouping` has one group id per row, two rows
    // share an id iff their keys are equal, `unique` holds every distinct key exactly once at the position of its id, and ids
    // are handed out densely in order of first appearance
    fn check_groups(n: usize, same: &dyn Fn(usize, usize) -> bool, grouping: &[u32], unique_len: usize, unique_is: &dyn Fn(usize, usize) -> bool, card: RawVal) {
        assert!(grouping.len() == n, "[one-id-per-row] every input row gets a group id");
        assert!(card == RawVal::Int(unique_len as i64), "[cardinality] the reported number of groups is the number of distinct keys kept");
        let mut groups = 0;
        for i in 0..n {
            let mut first = true;
            for j in 0..i { if same(i, j) { first = false; } }
            if first { assert!(grouping[i] as usize == groups, "[ids-dense-in-first-appearance-order] a key seen for the first time gets the next unused group id"); groups += 1; }
            for j in 0..n { assert!((grouping[i] == grouping[j]) == same(i, j), "[same-id-iff-same-key] two rows share a group id exactly when their grouping values are equal"); }
            assert!((grouping[i] as usize) < unique_len && unique_is(grouping[i] as usize, i), "[unique-holds-the-key] the key stored for a group id is the grouping value of its rows");
        }
        assert!(unique_len == groups, "[one-entry-per-group] each distinct combination of grouping values is kept exactly once");
    }
    // single-column keys, two streamed batches of two rows: the map carries over, the per-batch id vector is cleared
    #[kani::proof]
    #[kani::unwind(8)]
    fn single_column_two_batches() {
        let keys: [i64; N] = kani::any();
        let mut this = GroupingState { map: FnvHashMap::default() };
        let grouping_cell: RefCell<Vec<u32>> = RefCell::new(Vec::new());
        let unique_cell: RefCell<Vec<i64>> = RefCell::new(Vec::new());
        let input_cell = RefCell::new(keys.to_vec());
        let mut all = [0u32; N];
        let c1 = grouping_execute(&mut this, true, Ref::map(input_cell.borrow(), |v| &v[..2]), grouping_cell.borrow_mut(), unique_cell.borrow_mut());
        { let g = grouping_cell.borrow(); assert!(g.len() == 2, "[one-id-per-row] every input row gets a group id"); all[0] = g[0]; all[1] = g[1]; }
        let c2 = grouping_execute(&mut this, true, Ref::map(input_cell.borrow(), |v| &v[2..]), grouping_cell.borrow_mut(), unique_cell.borrow_mut());
        { let g = grouping_cell.borrow(); assert!(g.len() == 2, "[batch-ids-only] when streaming, the id vector holds the ids of the current batch only"); all[2] = g[0]; all[3] = g[1]; }
        let unique = unique_cell.borrow();
        check_groups(N, &|i, j| keys[i] == keys[j], &all, unique.len(), &|g, i| unique[g] == keys[i], c2);
    }
    // single-column keys, one batch, not streaming
    #[kani::proof]
    #[kani::unwind(8)]
    fn single_column_one_batch() {
        let keys: [i64; N] = kani::any();
        let mut this = GroupingState { map: FnvHashMap::default() };
        let grouping_cell: RefCell<Vec<u32>> = RefCell::new(Vec::new());
        let unique_cell: RefCell<Vec<i64>> = RefCell::new(Vec::new());
        let input_cell = RefCell::new(keys.to_vec());
        let c = grouping_execute(&mut this, false, Ref::map(input_cell.borrow(), |v| &v[..]), grouping_cell.borrow_mut(), unique_cell.borrow_mut());
        let unique = unique_cell.borrow();
        let g = grouping_cell.borrow();
        check_groups(N, &|i, j| keys[i] == keys[j], &g[..], unique.len(), &|g, i| unique[g] == keys[i], c);
    }
    // two-column byte-slice keys (row length 2), R rows; each cell one of two one-byte strings or the empty string
    fn run_byte_slice_rows<const R: usize>() {
        static A: [u8; 1] = [b'a'];
        static B: [u8; 1] = [b'b'];
        static E: [u8; 0] = [];
        let pick = |k: u8| -> &'static [u8] { match k % 3 { 0 => &A[..], 1 => &B[..], _ => &E[..] } };
        let mut input = ByteSlices::new(2);
        for c in 0..2 * R { input.data.push(pick(kani::any())); }
        let mut unique = ByteSlices::new(2);
        let grouping_cell: RefCell<Vec<u32>> = RefCell::new(Vec::new());
        let c = grouping_byte_slices_execute(false, &input, grouping_cell.borrow_mut(), &mut unique);
        let g = grouping_cell.borrow();
        let same = |i: usize, j: usize| input.data[2 * i] == input.data[2 * j] && input.data[2 * i + 1] == input.data[2 * j + 1];
        assert!(unique.data.len() % 2 == 0, "[whole-rows] the kept keys are whole rows");
        check_groups(R, &same, &g[..], unique.data.len() / 2, &|gid, i| unique.data[2 * gid] == input.data[2 * i] && unique.data[2 * gid + 1] == input.data[2 * i + 1], c);
    }
    #[kani::proof]
    #[kani::unwind(8)]
    fn byte_slice_rows_two() { run_byte_slice_rows::<2>(); }
    #[kani::proof]
    #[kani::unwind(8)]
    fn byte_slice_rows_three() { run_byte_slice_rows::<3>(); }
    // two-column mixed-value keys (row length 2), R rows; each cell NULL, an integer or a float
    fn run_val_rows<const R: usize>() {
        let mut input = ValRows::new(2);
        for c in 0..2 * R {
            let k: u8 = kani::any();
            input.data.push(match k % 3 { 0 => Val::Null, 1 => Val::Integer(kani::any::<i8>() as i64), _ => Val::Float(OrderedFloat(kani::any::<i8>() as f64 / 2.0)) });
        }
        let unique_cell = RefCell::new(ValRows::new(2));
        let grouping_cell: RefCell<Vec<u32>> = RefCell::new(Vec::new());
        let c = grouping_val_rows_execute(false, &input, grouping_cell.borrow_mut(), unique_cell.borrow_mut());
        let g = grouping_cell.borrow();
        let unique = unique_cell.borrow();
        let same = |i: usize, j: usize| input.data[2 * i] == input.data[2 * j] && input.data[2 * i + 1] == input.data[2 * j + 1];
        assert!(unique.data.len() % 2 == 0, "[whole-rows] the kept keys are whole rows");
        check_groups(R, &same, &g[..], unique.data.len() / 2, &|gid, i| unique.data[2 * gid] == input.data[2 * i] && unique.data[2 * gid + 1] == input.data[2 * i + 1], c);
    }
    #[kani::proof]
    #[kani::unwind(8)]
    fn val_rows_two() { run_val_rows::<2>(); }
    #[kani::proof]
    #[kani::unwind(8)]
    fn val_rows_three() { run_val_rows::<3>(); }
    #[kani::proof]
    fn vx_canary() {
        let x: u8 = kani::any();
        assert!(x < 200, "[canary] must fail");
    }
} // mod proofs
