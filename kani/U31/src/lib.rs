// U31 (Kani, complete once `bits` is integer arithmetic): try_bitpacking - width of a grouping-key field and the
// accounting of the packed key (C04: "one row for every distinct combination": two combinations must never share a key).
#![allow(dead_code, unused_variables, unused_mut)]
#[derive(Debug)]
pub enum QueryError { Other }
pub struct Planner { pub resets: usize }
impl Planner { pub fn reset(&mut self) { self.resets += 1; } }
// stand-ins: a plan node is its nullability and the value range the range analysis reports for it
pub struct Plan { pub nullable: bool, pub range: Option<(i64, i64)> }
impl Plan { pub fn is_nullable(&self) -> bool { self.nullable } }
pub fn encoding_range(p: &&Plan, _: &Planner) -> Option<(i64, i64)> { p.range }
macro_rules! debug { ($($t:tt)*) => {}; }
include!("bits.rs");

#[cfg(kani)]
mod proofs {
    use super::*;
    // a field of bits(max) bits holds every value 0..=max, and is not wider than needed
    #[kani::proof]
    fn field_width_holds_max() {
        let max: i64 = kani::any();
        kani::assume(max >= 0);
        let w = bits(max);
        assert!(w >= 0 && w <= 63, "[width-range] a field is between 0 and 63 bits wide");
        assert!((max as u128) < (1u128 << w), "[wide-enough] every value up to max fits into bits(max) bits (else two groups share a key and the decoded value loses its top bit)");
        assert!(w == 0 || (max as u128) >= (1u128 << (w - 1)), "[not-wider] bits(max) is the minimal width");
    }
    // ranges of negative numbers are measured after subtracting the offset; bits() itself must not misbehave on them
    #[kani::proof]
    fn field_width_of_negative_is_zero() {
        let max: i64 = kani::any();
        kani::assume(max < 0);
        assert!(bits(max) == 0, "[negative-zero-width] a non-positive maximum needs no bits");
    }
    // adding a field keeps the packed key inside 63 bits, or gives up on bit packing - never an arithmetic panic
    #[kani::proof]
    fn packed_key_accounting() {
        let (largest_key, total_width, adjusted_max): (i64, i64, i64) = (kani::any(), kani::any(), kani::any());
        kani::assume(0 <= total_width && total_width <= 63 && 0 <= largest_key && (largest_key as u128) < (1u128 << total_width) && adjusted_max >= 0);
        let mut planner = Planner { resets: 0 };
        match account_field(&mut planner, largest_key, total_width, adjusted_max) {
            Ok(Some((k, w))) => {
                assert!(w == total_width + bits(adjusted_max), "[width-advances] the shift advances by the field's width");
                assert!(w <= 63, "[fits-63] a key that is kept fits into 63 bits");
                assert!(k as u128 == largest_key as u128 + ((adjusted_max as u128) << total_width) && (k as u128) < (1u128 << w), "[largest-key] the largest key is the sum of the field maxima at their shifts");
            }
            Ok(None) => { assert!(total_width + bits(adjusted_max) > 63 && planner.resets == 1, "[gives-up-only-when-too-wide] bit packing is abandoned (planner reset) only when the key would exceed 63 bits"); }
            Err(_) => { assert!(false, "[no-error] field accounting never fails"); }
        }
    }
    fn any_plan() -> Plan {
        let (min, max): (i64, i64) = (kani::any(), kani::any());
        kani::assume(min <= max);
        Plan { nullable: kani::any(), range: Some((min, max)) }
    }
    // several GROUP BY columns: for every value range the range analysis can report, the field either is not bit packed or
    // is wide enough for every encoded value (v - min, or v - min + 1 with 0 for NULL, or v itself) - and nothing overflows
    #[kani::proof]
    fn field_span_covers_range() {
        let plan = any_plan();
        let (lo, hi) = plan.range.unwrap();
        let mut planner = Planner { resets: 0 };
        kani::cover!(field_range(&plan, &mut planner).is_some() && lo < 0, "vacuity: a negative range is accepted");
        if let Some((min, max)) = field_range(&plan, &mut planner) {
            assert!(min == lo && max == hi, "[range-unchanged] an accepted range is the reported one");
            let (subtract_offset, adjusted_max) = field_span(&plan, min, max);
            let span = max as i128 - min as i128;
            if plan.nullable { assert!(adjusted_max as i128 >= span + 1, "[nullable-span] NULL plus every value of the range get distinct field values"); }
            else if subtract_offset { assert!(adjusted_max as i128 >= span, "[offset-span] every value of the range minus the offset fits the field"); }
            else { assert!(min >= 0 && adjusted_max >= max, "[plain-span] without offset the values themselves fit the field"); }
        }
    }
    // one GROUP BY column: cardinality and offset derived from the range cover every value, without overflow
    #[kani::proof]
    fn single_key_span_covers_range() {
        let plan = any_plan();
        let mut planner = Planner { resets: 0 };
        let (max_cardinality, offset, range) = single_key_span(&plan, &mut planner);
        match range {
            Some((min, max)) => {
                let off = match offset { Some(o) => o as i128, None => 0 };
                assert!(min as i128 + off >= 0 && max as i128 + off <= max_cardinality as i128, "[cardinality-covers] every value plus the offset lies in 0..=max_cardinality");
                assert!(!plan.nullable || min as i128 + off >= 1 || offset == Some(0), "[null-slot-free] with an offset chosen for a nullable column, 0 stays free for NULL");
            }
            None => assert!(max_cardinality == 1 << 62 && offset.is_none(), "[unknown-range] an unknown range means unknown cardinality"),
        }
    }

    #[kani::proof]
    fn vx_canary() {
        let x: u8 = kani::any();
        assert!(x < 200, "[canary] must fail");
    }
} // mod proofs
