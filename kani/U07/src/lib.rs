// U07 (Kani, complete): comparison kernels of comparison_operators.rs, compiled AS IS via #[path].
#![allow(dead_code, unused_imports)]
pub mod engine {
    pub type of64 = ordered_float::OrderedFloat<f64>;
    pub mod data_types {
        // shim: in the main crate GenericIntVec carries the vector plumbing; here it is only the marker bound
        // that selects the integer instantiations {u8,u16,u32,i64} (same list as in data_types/vec_data.rs)
        pub trait GenericIntVec<T> {}
        impl GenericIntVec<u8> for u8 {}
        impl GenericIntVec<u16> for u16 {}
        impl GenericIntVec<u32> for u32 {}
        impl GenericIntVec<i64> for i64 {}
    }
    pub mod operators {
        pub mod binary_operator {
            include!("binary_operator_traits.rs");
        }
        #[path = "@REPO@/src/engine/operators/comparison_operators.rs"]
        pub mod comparison_operators;
    }
}

#[cfg(kani)]
mod proofs {
    use super::engine::of64;
    use super::engine::operators::binary_operator::*;
    use super::engine::operators::comparison_operators::*;

    // C03: the comparison kernels are the mathematical relations on the decoded integers, whatever the two widths
    macro_rules! cmp4 {
        ($name:ident, $l:ty, $r:ty) => {
            #[kani::proof]
            fn $name() {
                let l: $l = kani::any();
                let r: $r = kani::any();
                let (a, b) = (l as i128, r as i128);
                assert!(<LessThan as BinaryOp<$l, $r, u8>>::perform(l, r) == (a < b) as u8, "[lt] LessThan::perform is < on the integers");
                assert!(<LessThanEquals as BinaryOp<$l, $r, u8>>::perform(l, r) == (a <= b) as u8, "[le] LessThanEquals::perform is <= on the integers");
                assert!(<Equals as BinaryOp<$l, $r, u8>>::perform(l, r) == (a == b) as u8, "[eq] Equals::perform is = on the integers");
                assert!(<NotEquals as BinaryOp<$l, $r, u8>>::perform(l, r) == (a != b) as u8, "[ne] NotEquals::perform is <> on the integers");
            }
        };
    }
    cmp4!(cmp_u8_u8, u8, u8);    cmp4!(cmp_u8_u16, u8, u16);   cmp4!(cmp_u8_u32, u8, u32);   cmp4!(cmp_u8_i64, u8, i64);
    cmp4!(cmp_u16_u8, u16, u8);  cmp4!(cmp_u16_u16, u16, u16); cmp4!(cmp_u16_u32, u16, u32); cmp4!(cmp_u16_i64, u16, i64);
    cmp4!(cmp_u32_u8, u32, u8);  cmp4!(cmp_u32_u16, u32, u16); cmp4!(cmp_u32_u32, u32, u32); cmp4!(cmp_u32_i64, u32, i64);
    cmp4!(cmp_i64_u8, i64, u8);  cmp4!(cmp_i64_u16, i64, u16); cmp4!(cmp_i64_u32, i64, u32); cmp4!(cmp_i64_i64, i64, i64);

    #[kani::proof]
    fn cmp_f64() {
        let l: f64 = kani::any();
        let r: f64 = kani::any();
        kani::assume(!l.is_nan() && !r.is_nan());
        let (a, b) = (ordered_float::OrderedFloat(l), ordered_float::OrderedFloat(r));
        assert!(<LessThan as BinaryOp<of64, of64, u8>>::perform(a, b) == (l < r) as u8, "[lt-f64] LessThan on floats is IEEE < (non-NaN)");
        assert!(<LessThanEquals as BinaryOp<of64, of64, u8>>::perform(a, b) == (l <= r) as u8, "[le-f64] LessThanEquals on floats is IEEE <=");
        assert!(<Equals as BinaryOp<of64, of64, u8>>::perform(a, b) == (l == r) as u8, "[eq-f64] Equals on floats is IEEE ==");
        assert!(<NotEquals as BinaryOp<of64, of64, u8>>::perform(a, b) == (l != r) as u8, "[ne-f64] NotEquals on floats is IEEE !=");
    }

    #[kani::proof]
    fn bool_ops() {
        let l: u8 = kani::any();
        let r: u8 = kani::any();
        // filter bytes are produced by `(cond) as u8`: 0 or 1
        kani::assume(l <= 1 && r <= 1);
        assert!(<BoolOr as BinaryOp<u8, u8, u8>>::perform(l, r) == (l == 1 || r == 1) as u8, "[or] BoolOr is logical OR on filter bytes");
        assert!(<BoolAnd as BinaryOp<u8, u8, u8>>::perform(l, r) == (l == 1 && r == 1) as u8, "[and] BoolAnd is logical AND on filter bytes");
    }

    #[kani::proof]
    fn vx_canary() {
        let x: u8 = kani::any();
        assert!(x < 200, "[canary] must fail");
    }
} // mod proofs
