// U12 (Kani): every impl Comparator<T> for Cmp{Less,Greater}Than in comparator.rs, compiled AS IS via #[path].
// Contract = what the merge / sort / top-n kernels assume of a comparator (U10, U11), plus C05's NULL placement.
#![allow(dead_code, unused_imports)]
pub mod mem_store {
    use ordered_float::OrderedFloat;
    include!("val.rs");
}
pub mod engine {
    pub mod operators {
        #[path = "@REPO@/src/engine/operators/comparator.rs"]
        pub mod comparator;
    }
}

#[cfg(kani)]
mod proofs {
    use super::engine::operators::comparator::*;
    use super::mem_store::Val;
    use ordered_float::OrderedFloat;
    use std::cmp::Ordering;

    // cmp / cmp_eq / ordering describe ONE total preorder; direction given by is_less_than()
    macro_rules! consistent {
        ($C:ty, $T:ty, $a:expr, $b:expr, $c:expr) => {{
            let (a, b, c): ($T, $T, $T) = ($a, $b, $c);
            let ab = <$C as Comparator<$T>>::ordering(a, b);
            let ba = <$C as Comparator<$T>>::ordering(b, a);
            let bc = <$C as Comparator<$T>>::ordering(b, c);
            let ac = <$C as Comparator<$T>>::ordering(a, c);
            assert!(<$C as Comparator<$T>>::cmp(a, b) == (ab == Ordering::Less), "[cmp-is-strict] cmp(l,r) <=> ordering(l,r) == Less");
            assert!(<$C as Comparator<$T>>::cmp_eq(a, b) == (ab != Ordering::Greater), "[cmp_eq-is-weak] cmp_eq(l,r) <=> ordering(l,r) != Greater");
            assert!(ab == ba.reverse(), "[antisymmetric] ordering(l,r) is the reverse of ordering(r,l)");
            assert!(!(ab != Ordering::Greater && bc != Ordering::Greater) || ac != Ordering::Greater, "[transitive] l<=m and m<=r imply l<=r");
            assert!((ab == Ordering::Equal) == (a == b), "[equal-iff-same] ordering is Equal exactly for equal values");
        }};
    }
    macro_rules! natural {
        ($C:ty, $T:ty, $a:expr, $b:expr) => {{
            let (a, b): ($T, $T) = ($a, $b);
            let nat = a.cmp(&b);
            let o = <$C as Comparator<$T>>::ordering(a, b);
            if <$C as Comparator<$T>>::is_less_than() {
                assert!(o == nat, "[ascending] CmpLessThan orders by the natural order");
            } else {
                assert!(o == nat.reverse(), "[descending] CmpGreaterThan orders by the reversed natural order");
            }
        }};
    }
    macro_rules! scalar {
        ($name:ident, $C:ty, $T:ty, $mk:expr) => {
            #[kani::proof]
            fn $name() {
                let mk = $mk;
                let (a, b, c): ($T, $T, $T) = (mk(), mk(), mk());
                consistent!($C, $T, a, b, c);
                natural!($C, $T, a, b);
            }
        };
    }
    fn any_f() -> OrderedFloat<f64> { OrderedFloat(kani::any()) }
    scalar!(lt_u8, CmpLessThan, u8, || kani::any::<u8>());
    scalar!(lt_u16, CmpLessThan, u16, || kani::any::<u16>());
    scalar!(lt_u32, CmpLessThan, u32, || kani::any::<u32>());
    scalar!(lt_u64, CmpLessThan, u64, || kani::any::<u64>());
    scalar!(lt_i64, CmpLessThan, i64, || kani::any::<i64>());
    scalar!(lt_f64, CmpLessThan, OrderedFloat<f64>, any_f);
    scalar!(gt_u8, CmpGreaterThan, u8, || kani::any::<u8>());
    scalar!(gt_u16, CmpGreaterThan, u16, || kani::any::<u16>());
    scalar!(gt_u32, CmpGreaterThan, u32, || kani::any::<u32>());
    scalar!(gt_u64, CmpGreaterThan, u64, || kani::any::<u64>());
    scalar!(gt_i64, CmpGreaterThan, i64, || kani::any::<i64>());
    scalar!(gt_f64, CmpGreaterThan, OrderedFloat<f64>, any_f);

    // ---- strings: bounded (at most 2 bytes of ASCII per string); the match structure of the impls is loop-free ----
    struct S { buf: [u8; 2], n: usize }
    fn any_s() -> S {
        let buf: [u8; 2] = kani::any();
        let n: usize = kani::any();
        kani::assume(n <= 2 && buf[0] < 128 && buf[1] < 128);
        S { buf, n }
    }
    impl S { fn s(&self) -> &str { unsafe { std::str::from_utf8_unchecked(&self.buf[..self.n]) } } }  // ASCII by construction
    fn any_opt<'a>(s: &'a S) -> Option<&'a str> { if kani::any() { Some(s.s()) } else { None } }

    #[kani::proof]
    #[kani::unwind(4)]
    fn lt_str() {
        let (x, y, z) = (any_s(), any_s(), any_s());
        consistent!(CmpLessThan, &str, x.s(), y.s(), z.s());
        natural!(CmpLessThan, &str, x.s(), y.s());
    }
    #[kani::proof]
    #[kani::unwind(4)]
    fn gt_str() {
        let (x, y, z) = (any_s(), any_s(), any_s());
        consistent!(CmpGreaterThan, &str, x.s(), y.s(), z.s());
        natural!(CmpGreaterThan, &str, x.s(), y.s());
    }
    // C05: NULL ordered after every value, first when descending
    #[kani::proof]
    #[kani::unwind(4)]
    fn lt_opt_str() {
        let (x, y, z) = (any_s(), any_s(), any_s());
        let (a, b, c) = (any_opt(&x), any_opt(&y), any_opt(&z));
        consistent!(CmpLessThan, Option<&str>, a, b, c);
        if let (Some(l), Some(r)) = (a, b) {
            assert!(<CmpLessThan as Comparator<Option<&str>>>::ordering(a, b) == l.cmp(r), "[ascending] values in natural order");
        }
        if a.is_some() && b.is_none() {
            assert!(<CmpLessThan as Comparator<Option<&str>>>::ordering(a, b) == Ordering::Less, "[null-last] ascending: NULL after every value");
        }
    }
    #[kani::proof]
    #[kani::unwind(4)]
    fn gt_opt_str() {
        let (x, y, z) = (any_s(), any_s(), any_s());
        let (a, b, c) = (any_opt(&x), any_opt(&y), any_opt(&z));
        consistent!(CmpGreaterThan, Option<&str>, a, b, c);
        if let (Some(l), Some(r)) = (a, b) {
            assert!(<CmpGreaterThan as Comparator<Option<&str>>>::ordering(a, b) == r.cmp(l), "[descending] values in reversed natural order");
        }
        if a.is_none() && b.is_some() {
            assert!(<CmpGreaterThan as Comparator<Option<&str>>>::ordering(a, b) == Ordering::Less, "[null-first] descending: NULL before every value");
        }
    }

    // ---- Val (mixed-type rows): NULL placement and consistency; string payload bounded as above ----
    fn any_val<'a>(s: &'a S) -> Val<'a> {
        let k: u8 = kani::any();
        kani::assume(k < 5);
        match k {
            0 => Val::Null,
            1 => Val::Bool(kani::any()),
            2 => Val::Integer(kani::any()),
            3 => Val::Str(s.s()),
            _ => Val::Float(OrderedFloat(kani::any())),
        }
    }
    #[kani::proof]
    #[kani::unwind(4)]
    fn lt_val() {
        let (x, y, z) = (any_s(), any_s(), any_s());
        let (a, b, c) = (any_val(&x), any_val(&y), any_val(&z));
        consistent!(CmpLessThan, Val, a, b, c);
        if !matches!(a, Val::Null) && matches!(b, Val::Null) {
            assert!(<CmpLessThan as Comparator<Val>>::ordering(a, b) == Ordering::Less, "[null-last] ascending: NULL after every value");
        }
        if let (Val::Integer(l), Val::Integer(r)) = (a, b) {
            assert!(<CmpLessThan as Comparator<Val>>::ordering(a, b) == l.cmp(&r), "[ascending] integers in natural order");
        }
        if let (Val::Str(l), Val::Str(r)) = (a, b) {
            assert!(<CmpLessThan as Comparator<Val>>::ordering(a, b) == l.cmp(r), "[ascending-str] strings in natural order");
        }
        if let (Val::Float(l), Val::Float(r)) = (a, b) {
            assert!(<CmpLessThan as Comparator<Val>>::ordering(a, b) == l.cmp(&r), "[ascending-float] floats in natural order");
        }
    }
    #[kani::proof]
    #[kani::unwind(4)]
    fn gt_val() {
        let (x, y, z) = (any_s(), any_s(), any_s());
        let (a, b, c) = (any_val(&x), any_val(&y), any_val(&z));
        consistent!(CmpGreaterThan, Val, a, b, c);
        if matches!(a, Val::Null) && !matches!(b, Val::Null) {
            assert!(<CmpGreaterThan as Comparator<Val>>::ordering(a, b) == Ordering::Less, "[null-first] descending: NULL before every value");
        }
        if let (Val::Integer(l), Val::Integer(r)) = (a, b) {
            assert!(<CmpGreaterThan as Comparator<Val>>::ordering(a, b) == r.cmp(&l), "[descending] integers in reversed natural order");
        }
        if let (Val::Str(l), Val::Str(r)) = (a, b) {
            assert!(<CmpGreaterThan as Comparator<Val>>::ordering(a, b) == r.cmp(l), "[descending-str] strings in reversed natural order");
        }
        if let (Val::Float(l), Val::Float(r)) = (a, b) {
            assert!(<CmpGreaterThan as Comparator<Val>>::ordering(a, b) == r.cmp(&l), "[descending-float] floats in reversed natural order");
        }
    }

    #[kani::proof]
    fn vx_canary() {
        let x: u8 = kani::any();
        assert!(x < 200, "[canary] must fail");
    }
} // mod proofs
