// U17 (Kani, BOUNDED): the real crate locustdb-serialization (path dependency, unmodified):
// event_buffer::ColumnBuffer::push - the client-side row API that builds dense / sparse column representations.
// Bound: 3 rows per column; every value is NULL, any i64 or any f64.
#![allow(dead_code, unused_imports)]
#[cfg(kani)]
mod proofs {
    use locustdb_serialization::api::AnyVal;
    use locustdb_serialization::event_buffer::{ColumnBuffer, ColumnData};

    const ROWS: usize = 3;

    #[derive(Clone, Copy, PartialEq)]
    enum Cell { Null, I(i64), F(u64) }

    // denotation of a column representation over `rows` rows (C16: "sparse and short dense columns are padded with NULL")
    fn den(d: &ColumnData, row: usize) -> Cell {
        match d {
            ColumnData::Empty => Cell::Null,
            ColumnData::Dense(v) => if row < v.len() { Cell::F(v[row].to_bits()) } else { Cell::Null },
            ColumnData::I64(v) => if row < v.len() { Cell::I(v[row]) } else { Cell::Null },
            ColumnData::Sparse(v) => { let mut c = Cell::Null; for (i, x) in v.iter() { if *i as usize == row { c = Cell::F(x.to_bits()); } } c }
            ColumnData::SparseI64(v) => { let mut c = Cell::Null; for (i, x) in v.iter() { if *i as usize == row { c = Cell::I(*x); } } c }
            _ => Cell::Null,
        }
    }

    #[kani::proof]
    #[kani::unwind(6)]
    fn push_rows() {
        let mut col = ColumnBuffer::default();
        let mut model = [Cell::Null; ROWS];
        let mut any_float = false;
        for row in 0..ROWS {
            let k: u8 = kani::any();
            kani::assume(k < 3);
            match k {
                0 => { col.push(AnyVal::Null, row as u64); }
                1 => { let v: i64 = kani::any(); col.push(AnyVal::Int(v), row as u64); model[row] = Cell::I(v); }
                _ => { let f: f64 = kani::any(); col.push(AnyVal::Float(f), row as u64); model[row] = Cell::F(f.to_bits()); any_float = true; }
            }
        }
        kani::cover!(matches!(col.data, ColumnData::SparseI64(_)), "vacuity: sparse int representation reachable");
        kani::cover!(matches!(col.data, ColumnData::Sparse(_)), "vacuity: sparse float representation reachable");
        for row in 0..ROWS {
            let got = den(&col.data, row);
            match model[row] {
                Cell::Null => assert!(got == Cell::Null, "[null-where-missing] a row that received no value denotes NULL"),
                Cell::F(b) => assert!(got == Cell::F(b), "[float-kept] float value kept bit-exactly at its row"),
                Cell::I(v) => {
                    if any_float {
                        // documented degrade: int + float gives float
                        assert!(got == Cell::F((v as f64).to_bits()), "[int-promoted-in-place] integer promoted to float stays at its row");
                    } else {
                        assert!(got == Cell::I(v), "[int-kept] integer value kept at its row");
                    }
                }
            }
        }
    }

    #[kani::proof]
    fn vx_canary() {
        let x: u8 = kani::any();
        assert!(x < 200, "[canary] must fail");
    }
} // mod proofs
