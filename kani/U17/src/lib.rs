// U17 (Kani, BOUNDED): the real crate locustdb-serialization (path dependency, unmodified):
// event_buffer::ColumnBuffer::push - the client-side row API that builds dense / sparse column representations.
// Bound: five fixed row shapes of 3-5 rows (one per representation transition); every value is any i64 / any f64.
#![allow(dead_code, unused_imports)]
#[cfg(kani)]
mod proofs {
    use locustdb_serialization::api::AnyVal;
    use locustdb_serialization::event_buffer::{ColumnBuffer, ColumnData};

    
    #[derive(Clone, Copy, PartialEq)]
    enum Cell { Null, I(i64), F(u64) }

    // denotation of a column representation over `rows` rows (C16: "sparse and short dense columns are padded with NULL")
    fn den(d: &ColumnData, row: usize) -> Cell {
        match d {
            ColumnData::Empty => Cell::Null,
            ColumnData::Dense(v) => if row < v.len() { Cell::F(v[row].to_bits()) } else { Cell::Null },
            ColumnData::I64(v) => if row < v.len() { Cell::I(v[row]) } else { Cell::Null },
            ColumnData::Sparse(v) => { let mut c = Cell::Null; for (i, x) in v.iter() { if *i as usize == row { c = Cell::F(x.to_bits()); } } c }
            ColumnData::SparseI64(v) => { let mut c = Cell::Null; for (i, x) in v.iter() { if *i as usize == row { c = Cell::I(*x); } } c }
            _ => Cell::Null,
        }
    }

    // fixed row shapes (which rows receive NULL / an int / a float), all values symbolic: one harness per representation
    // transition of ColumnBuffer::push (dense -> sparse, int -> float promotion of dense and of sparse columns, late start)
    #[derive(Clone, Copy)]
    enum K { N, I, F }
    fn run_shape<const R: usize>(shape: [K; R]) {
        let mut col = ColumnBuffer::default();
        let mut model = [Cell::Null; R];
        let mut any_float = false;
        for row in 0..R {
            match shape[row] {
                K::N => { col.push(AnyVal::Null, row as u64); }
                K::I => { let v: i64 = kani::any::<i8>() as i64; col.push(AnyVal::Int(v), row as u64); model[row] = Cell::I(v); }
                K::F => { let f: f64 = kani::any(); col.push(AnyVal::Float(f), row as u64); model[row] = Cell::F(f.to_bits()); any_float = true; }
            }
        }
        for row in 0..R {
            let got = den(&col.data, row);
            match model[row] {
                Cell::Null => assert!(got == Cell::Null, "[null-where-missing] a row that received no value denotes NULL"),
                Cell::F(b) => assert!(got == Cell::F(b), "[float-kept] float value kept bit-exactly at its row"),
                Cell::I(v) => {
                    if any_float {
                        assert!(got == Cell::F((v as f64).to_bits()), "[int-promoted-in-place] integer promoted to float stays at its row");
                    } else {
                        assert!(got == Cell::I(v), "[int-kept] integer value kept at its row");
                    }
                }
            }
        }
    }
    #[kani::proof]
    #[kani::unwind(6)]
    fn dense_floats_then_gap() { run_shape([K::F, K::N, K::F]); }              // Dense -> Sparse
    #[kani::proof]
    #[kani::unwind(6)]
    fn late_start_float_then_int() { run_shape([K::N, K::N, K::F, K::I]); }    // Sparse, int pushed into float column

    // the four representation-transition arms as slices (arms.rs), over vectors of the fixed length 3 with any contents
    include!("arms.rs");
    const N: usize = 3;
    #[kani::proof]
    #[kani::unwind(6)]
    fn arm_dense_to_sparse_keeps_rows() {
        let vals: [f64; N] = kani::any();
        let mut data = vals.to_vec();
        let (row, v): (u64, f64) = (kani::any(), kani::any());
        let out = arm_dense_to_sparse(&mut data, row, v);
        assert!(out.len() == N + 1, "[len] one entry per dense row plus the new one");
        for i in 0..N { assert!(out[i].0 == i as u64 && out[i].1.to_bits() == vals[i].to_bits(), "[row-kept] dense row i becomes sparse entry (i, value)"); }
        assert!(out[N].0 == row && out[N].1.to_bits() == v.to_bits(), "[new-entry] the pushed value is recorded at the table's row count");
    }
    #[kani::proof]
    #[kani::unwind(6)]
    fn arm_i64_to_sparse_keeps_rows() {
        let vals: [i64; N] = kani::any();
        let mut data = vals.to_vec();
        let (row, v): (u64, i64) = (kani::any(), kani::any());
        let out = arm_i64_to_sparse(&mut data, row, v);
        assert!(out.len() == N + 1, "[len] one entry per dense row plus the new one");
        for i in 0..N { assert!(out[i] == (i as u64, vals[i]), "[row-kept] dense row i becomes sparse entry (i, value)"); }
        assert!(out[N] == (row, v), "[new-entry] the pushed value is recorded at the table's row count");
    }
    #[kani::proof]
    #[kani::unwind(6)]
    fn arm_sparse_i64_to_sparse_keeps_rows() {
        let rows: [u64; N] = kani::any();
        let vals: [i8; N] = kani::any();
        let mut data: Vec<(u64, i64)> = vec![(rows[0], vals[0] as i64), (rows[1], vals[1] as i64), (rows[2], vals[2] as i64)];
        let out = arm_sparse_i64_to_sparse(&mut data);
        assert!(out.len() == N, "[len] one float entry per integer entry");
        for i in 0..N { assert!(out[i].0 == rows[i] && out[i].1.to_bits() == (vals[i] as f64).to_bits(), "[row-index-kept] entry i keeps its row index and holds the float of its integer"); }
    }

    // the whole (I64, Float) arm, with and without a gap before the float
    #[kani::proof]
    #[kani::unwind(6)]
    fn arm_i64_gets_float_keeps_rows() {
        let vals: [i8; 2] = kani::any();
        let gap: bool = kani::any();
        let value: f64 = kani::any();
        let mut col = ColumnBuffer { data: ColumnData::I64(vec![vals[0] as i64, vals[1] as i64]) };
        let row = if gap { 3u64 } else { 2u64 };
        arm_i64_gets_float(&mut col, value, row);
        for i in 0..2 { assert!(den(&col.data, i) == Cell::F((vals[i] as f64).to_bits()), "[promoted-in-place] an integer row holds the float of its integer after the promotion"); }
        assert!(den(&col.data, row as usize) == Cell::F(value.to_bits()), "[float-at-its-row] the float is recorded at the table's current row");
        if gap { assert!(den(&col.data, 2) == Cell::Null, "[gap-stays-null] the row that received no value stays NULL"); }
        assert!(den(&col.data, row as usize + 1) == Cell::Null, "[nothing-after] no value appears after the current row");
    }
    #[kani::proof]
    fn vx_canary() {
        let x: u8 = kani::any();
        assert!(x < 200, "[canary] must fail");
    }
} // mod proofs
