// U43n (native, BOUNDED exhaustive enumeration - not a proof; the Kani version of the same harnesses did not finish in 15 min
// per harness even for 2 rows, the cost is the dynamic dispatch over `dyn Data`): the free fn column::decode (whole fn) - the
// stack machine compaction uses to read
// a stored column back (C07: "flush, compaction and eviction never change table content").  The codecs are the ones the
// ingestion side builds: dict_codec (item) + the presence attachment of fast_build_string_column (slice) for dictionary
// string columns, the codec table of IntegerColumn::create_col (slice) for narrow integer columns.
// Contract: decode(codec, sections) denotes the rows that were stored - NULL exactly where the presence bit is clear.
// Pool: 3 rows; every index triple over a 3-entry dictionary, every presence byte pattern of 3 rows, stored bytes over
// {0, 1, 7, 255}, offsets over {-3, 1000, i64::MIN / 4}.
#![allow(dead_code, unused_imports, unused_variables, unused_mut, non_camel_case_types)]
use std::mem;
use std::str;
use ordered_float::OrderedFloat;
pub mod tys { include!("types.rs"); }
pub use tys::*;
pub type of64 = OrderedFloat<f64>;
#[derive(Clone, Copy, Debug, PartialEq)] pub enum BasicType { String, Integer, Float, Null, Boolean, Val }

// R10: `dyn Data` reduced to the accessors decode calls.  Vec<T> and NullableVec<T> implement them as the real ones do:
// cast_ref_<t> gives the payload (also of a nullable vector), get_type is the nullable type for a NullableVec,
// make_nullable pairs the payload with a presence bitmap, slice_box(0, len) is a view borrowing the whole vector.
pub type BoxedData<'a> = Box<dyn Data<'a> + 'a>;
pub trait Data<'a> {
    fn len(&self) -> usize;
    fn get_type(&self) -> EncodingType;
    fn slice_box<'b>(&'b self, from: usize, to: usize) -> BoxedData<'b> where 'a: 'b;
    fn make_nullable(&mut self, present: &[u8]) -> BoxedData<'a>;
    fn cast_ref_u8(&self) -> &[u8] { panic!("cast_ref_u8") }
    fn cast_ref_u16(&self) -> &[u16] { panic!("cast_ref_u16") }
    fn cast_ref_u32(&self) -> &[u32] { panic!("cast_ref_u32") }
    fn cast_ref_u64(&self) -> &[u64] { panic!("cast_ref_u64") }
    fn cast_ref_i64(&self) -> &[i64] { panic!("cast_ref_i64") }
    fn cast_ref_f64(&self) -> &[of64] { panic!("cast_ref_f64") }
    fn cast_ref_str(&self) -> &[&'a str] { panic!("cast_ref_str") }
    fn cast_ref_null_map(&self) -> &[u8] { panic!("cast_ref_null_map") }
}
pub struct NullableVec<T> { pub data: Vec<T>, pub present: Vec<u8> }
macro_rules! vec_data {
    ($t:ty, $cast:ident, $tag:ident, $ntag:ident) => {
        impl<'a> Data<'a> for Vec<$t> {
            fn len(&self) -> usize { Vec::len(self) }
            fn get_type(&self) -> EncodingType { EncodingType::$tag }
            // a view that borrows the section, as the real slice_box does (decode hands out strings that point into it)
            fn slice_box<'b>(&'b self, from: usize, to: usize) -> BoxedData<'b> where 'a: 'b { Box::new(&self[from..to]) }
            fn make_nullable(&mut self, present: &[u8]) -> BoxedData<'a> { let data = mem::take(self); Box::new(NullableVec { data, present: present.to_vec() }) }
            fn $cast(&self) -> &[$t] { &self[..] }
        }
        impl<'a> Data<'a> for &'a [$t] {
            fn len(&self) -> usize { <[$t]>::len(self) }
            fn get_type(&self) -> EncodingType { EncodingType::$tag }
            fn slice_box<'b>(&'b self, from: usize, to: usize) -> BoxedData<'b> where 'a: 'b { Box::new(&self[from..to]) }
            fn make_nullable(&mut self, present: &[u8]) -> BoxedData<'a> { Box::new(NullableVec { data: self.to_vec(), present: present.to_vec() }) }
            fn $cast(&self) -> &[$t] { self }
        }
        impl<'a> Data<'a> for NullableVec<$t> {
            fn len(&self) -> usize { self.data.len() }
            fn get_type(&self) -> EncodingType { EncodingType::$ntag }
            fn slice_box<'b>(&'b self, from: usize, to: usize) -> BoxedData<'b> where 'a: 'b { Box::new(NullableVec { data: self.data[from..to].to_vec(), present: self.present.clone() }) }
            fn make_nullable(&mut self, present: &[u8]) -> BoxedData<'a> { panic!("make_nullable on a nullable vector") }
            fn $cast(&self) -> &[$t] { &self.data[..] }
            fn cast_ref_null_map(&self) -> &[u8] { &self.present[..] }
        }
    };
}
vec_data!(u8, cast_ref_u8, U8, NullableU8);
vec_data!(u16, cast_ref_u16, U16, NullableU16);
vec_data!(u32, cast_ref_u32, U32, NullableU32);
vec_data!(u64, cast_ref_u64, U64, NullableU64);
vec_data!(i64, cast_ref_i64, I64, NullableI64);
vec_data!(of64, cast_ref_f64, F64, NullableF64);
vec_data!(&'a str, cast_ref_str, Str, NullableStr);
pub enum DataSection { Bitvec(Vec<u8>), I64(Vec<i64>), F64(Vec<of64>) }
impl From<Vec<i64>> for DataSection { fn from(v: Vec<i64>) -> Self { DataSection::I64(v) } }
impl From<Vec<of64>> for DataSection { fn from(v: Vec<of64>) -> Self { DataSection::F64(v) } }
impl DataSection {
    pub fn as_data(&self) -> &dyn Data<'_> { match self { DataSection::Bitvec(v) => v, DataSection::I64(v) => v, DataSection::F64(v) => v } }
}
// R10: a column is its op list and its data sections
pub struct Column { pub codec: Vec<CodecOp>, pub data: Vec<DataSection> }
impl Column { pub fn new(_name: &str, _len: usize, _range: Option<(i64, i64)>, codec: Vec<CodecOp>, data: Vec<DataSection>) -> Column { Column { codec, data } } }
#[path = "@REPO@/src/bitvec.rs"]
pub mod bitvec;
use bitvec::BitVec;
pub struct Codec { pub ops: Vec<CodecOp> }
impl Codec { pub fn ops(&self) -> &[CodecOp] { &self.ops } }
// LZ4 is the repository's own module over the lz4_flex crate (#[path] include); pco is a stand-in that must not be reached
#[path = "@REPO@/src/mem_store/lz4.rs"]
pub mod lz4;
pub fn simple_decompress<T>(_: &[u8]) -> Result<Vec<T>, ()> { panic!("pco stand-in reached") }
pub fn vec_f64_to_vec_of64(v: Vec<f64>) -> Vec<of64> { v.into_iter().map(OrderedFloat).collect() }
include!("decode.rs");

fn bit(present: &[u8], i: usize) -> bool { let slot = i >> 3; slot < present.len() && present[slot] & (1 << (i as u8 & 7)) > 0 }
const N: usize = 3;

// dictionary-encoded string column, with and without NULLs: dictionary {"", "a", "bc"}
fn check_dict(nullable: bool, idx: [u8; N], present_byte: u8) -> Option<String> {
    static DICT: [u8; 3] = [b'a', b'b', b'c'];
    let ranges: Vec<u64> = vec![0, (0u64 << 24) | 1, (1u64 << 24) | 2];
    let words = ["", "a", "bc"];
    let indices: Vec<u8> = idx.to_vec();
    let dict: Vec<u8> = DICT.to_vec();
    let mut codec = dict_codec(EncodingType::U8);
    let mut extra: Vec<DataSection> = Vec::new();
    attach_present(&mut codec, &mut extra, if nullable { Some(vec![present_byte]) } else { None });
    let bitmap: Vec<u8> = match extra.pop() { Some(DataSection::Bitvec(p)) => p, _ => vec![] };
    let describe = |what: &str, i: usize| Some(format!("{}: dictionary string column, indices {:?} into [\"\", \"a\", \"bc\"], presence byte {}, row {}; codec {:?}", what, idx, if nullable { format!("{:#010b}", present_byte) } else { "none".to_string() }, i, codec));
    if nullable != (bitmap.len() == 1) { return describe("presence-section: a column with NULLs carries its presence bitmap as one more section", 0); }
    let sections: Vec<&dyn Data> = vec![&indices, &ranges, &dict, &bitmap];
    let out = decode(&Codec { ops: codec.clone() }, &sections[..if nullable { 4 } else { 3 }]);
    if out.len() != N { return describe("same-length: decoding keeps the number of rows", 0); }
    let strs = out.cast_ref_str();
    for i in 0..N {
        if nullable && !bit(&[present_byte], i) {
            if !(out.get_type().is_nullable() && !bit(out.cast_ref_null_map(), i)) { return describe("null-stays-null: a row stored as NULL is decoded as a value", i); }
        } else {
            if out.get_type().is_nullable() && !bit(out.cast_ref_null_map(), i) { return describe("value-stays-present: a row stored with a value is decoded as NULL", i); }
            if strs[i] != words[idx[i] as usize] { return describe("dictionary-entry: a present row does not decode to the dictionary entry of its index", i); }
        }
    }
    None
}

// narrow integer column (u8 payload), every codec of the create_col table: offset zero or not, delta or not, NULLs or not
fn check_ints(nullable: bool, offset: i64, delta: bool, stored: [u8; N], present_byte: u8) -> Option<String> {
    let null_map = if nullable { Some(vec![present_byte]) } else { None };
    let codec = narrow_int_codec(&null_map, offset, delta, EncodingType::U8);
    let describe = |what: &str, i: usize| Some(format!("{}: integer column stored as bytes {:?} with offset {}, delta {}, presence byte {}, row {}; codec {:?}", what, stored, offset, delta, if nullable { format!("{:#010b}", present_byte) } else { "none".to_string() }, i, codec));
    let payload: Vec<u8> = stored.to_vec();
    let bitmap: Vec<u8> = vec![present_byte];
    let sections: Vec<&dyn Data> = vec![&payload, &bitmap];
    let out = decode(&Codec { ops: codec.clone() }, &sections[..if nullable { 2 } else { 1 }]);
    if out.len() != N { return describe("same-length: decoding keeps the number of rows", 0); }
    let ints = out.cast_ref_i64();
    let mut sum: i64 = 0;
    for i in 0..N {
        let plain = stored[i] as i64 + offset;
        sum += plain;
        let want = if delta { sum } else { plain };
        if nullable && !bit(&[present_byte], i) {
            if !(out.get_type().is_nullable() && !bit(out.cast_ref_null_map(), i)) { return describe("null-stays-null: a row stored as NULL is decoded as a value", i); }
        } else {
            if out.get_type().is_nullable() && !bit(out.cast_ref_null_map(), i) { return describe("value-stays-present: a row stored with a value is decoded as NULL", i); }
            if ints[i] != want { return describe("stored-plus-offset: a present row does not decode to stored + offset (running sum when delta-encoded)", i); }
        }
    }
    None
}

// narrow integer column with a u16 payload whose first section was LZ4-compressed (Column::lz4_or_pco_encode -> with_lz4)
fn check_lz4_ints(nullable: bool, offset: i64, stored: [u16; N], present_byte: u8) -> Option<String> {
    let null_map = if nullable { Some(vec![present_byte]) } else { None };
    let base = narrow_int_codec(&null_map, offset, false, EncodingType::U16);
    let codec = with_lz4_ops(&base, EncodingType::U16, N);
    let describe = |what: &str, i: usize| Some(format!("{}: integer column stored as LZ4-compressed u16 values {:?} with offset {}, presence byte {}, row {}; codec {:?}", what, stored, offset, if nullable { format!("{:#010b}", present_byte) } else { "none".to_string() }, i, codec));
    let payload: Vec<u8> = lz4::encode(&stored[..]);
    let bitmap: Vec<u8> = vec![present_byte];
    let sections: Vec<&dyn Data> = vec![&payload, &bitmap];
    let out = match std::panic::catch_unwind(std::panic::AssertUnwindSafe(|| decode(&Codec { ops: codec.clone() }, &sections[..if nullable { 2 } else { 1 }]))) {
        Ok(o) => o,
        Err(_) => return describe("compressed-section-decodes: decode panics on a compressed integer section", 0),
    };
    if out.len() != N { return describe("same-length: decoding keeps the number of rows", 0); }
    let ints = out.cast_ref_i64();
    for i in 0..N {
        if nullable && !bit(&[present_byte], i) {
            if !(out.get_type().is_nullable() && !bit(out.cast_ref_null_map(), i)) { return describe("null-stays-null: a row stored as NULL is decoded as a value", i); }
        } else {
            if out.get_type().is_nullable() && !bit(out.cast_ref_null_map(), i) { return describe("value-stays-present: a row stored with a value is decoded as NULL", i); }
            if ints[i] != stored[i] as i64 + offset { return describe("stored-plus-offset: a present row does not decode to stored + offset", i); }
        }
    }
    None
}

// packed (non-dictionary) string column, plain and with its first section LZ4-compressed
fn check_packed_strings(compressed: bool, words: [&str; N]) -> Option<String> {
    let packed: Vec<u8> = PackedStrings::from_iterator(words.iter().copied()).into_vec();
    let base = string_pack_codec();
    let (codec, section0) = if compressed { (with_lz4_ops(&base, EncodingType::U8, packed.len()), lz4::encode(&packed[..])) } else { (base, packed) };
    let describe = |what: &str, i: usize| Some(format!("{}: packed string column {:?}, {}, row {}; codec {:?}", what, words, if compressed { "first section LZ4-compressed" } else { "uncompressed" }, i, codec));
    let sections: Vec<&dyn Data> = vec![&section0];
    let decoded: Result<Vec<String>, ()> = std::panic::catch_unwind(std::panic::AssertUnwindSafe(|| {
        let out = decode(&Codec { ops: codec.clone() }, &sections[..]);
        out.cast_ref_str().iter().map(|s| s.to_string()).collect()
    })).map_err(|_| ());
    let label = if compressed { "compressed-packed-strings-decode" } else { "packed-strings-decode" };
    match decoded {
        Err(_) => describe(&format!("{}: decode panics on a packed string column", label), 0),
        Ok(strs) => {
            if strs.len() != N { return describe(&format!("{}: decoding does not keep the number of rows", label), 0); }
            for i in 0..N { if strs[i] != words[i] { return describe(&format!("{}: a row does not decode to the string that was stored", label), i); } }
            None
        }
    }
}

// integers that need 64 bits, and floats: the columns are built by the real constructors' match expressions
fn check_wide_ints(nullable: bool, delta: bool, stored: [i64; N], present_byte: u8) -> Option<String> {
    let col = wide_int_column("c", stored.to_vec(), if nullable { Some(vec![present_byte]) } else { None }, delta, None);
    let describe = |what: &str, i: usize| Some(format!("{}: 64-bit integer column stored as {:?}, delta {}, presence byte {}, row {}; codec {:?}", what, stored, delta, if nullable { format!("{:#010b}", present_byte) } else { "none".to_string() }, i, col.codec));
    let sections: Vec<&dyn Data> = col.data.iter().map(|d| d.as_data()).collect();
    let out = decode(&Codec { ops: col.codec.clone() }, &sections[..]);
    if out.len() != N { return describe("same-length: decoding keeps the number of rows", 0); }
    let ints = out.cast_ref_i64();
    let mut sum: i64 = 0;
    for i in 0..N {
        sum = sum.wrapping_add(stored[i]);
        let want = if delta { sum } else { stored[i] };
        if nullable && !bit(&[present_byte], i) {
            if !(out.get_type().is_nullable() && !bit(out.cast_ref_null_map(), i)) { return describe("null-stays-null: a row stored as NULL is decoded as a value", i); }
        } else {
            if out.get_type().is_nullable() && !bit(out.cast_ref_null_map(), i) { return describe("value-stays-present: a row stored with a value is decoded as NULL", i); }
            if ints[i] != want { return describe("stored-value: a present row does not decode to the stored value (running sum when delta-encoded)", i); }
        }
    }
    None
}
fn check_floats(nullable: bool, stored: [f64; N], present_byte: u8) -> Option<String> {
    let col = float_column("c", stored.iter().map(|f| OrderedFloat(*f)).collect(), if nullable { Some(vec![present_byte]) } else { None });
    let describe = |what: &str, i: usize| Some(format!("{}: float column {:?}, presence byte {}, row {}; codec {:?}", what, stored, if nullable { format!("{:#010b}", present_byte) } else { "none".to_string() }, i, col.codec));
    let sections: Vec<&dyn Data> = col.data.iter().map(|d| d.as_data()).collect();
    let out = decode(&Codec { ops: col.codec.clone() }, &sections[..]);
    if out.len() != N { return describe("same-length: decoding keeps the number of rows", 0); }
    let floats = out.cast_ref_f64();
    for i in 0..N {
        if nullable && !bit(&[present_byte], i) {
            if !(out.get_type().is_nullable() && !bit(out.cast_ref_null_map(), i)) { return describe("null-stays-null: a row stored as NULL is decoded as a value", i); }
        } else {
            if out.get_type().is_nullable() && !bit(out.cast_ref_null_map(), i) { return describe("value-stays-present: a row stored with a value is decoded as NULL", i); }
            if floats[i].0.to_bits() != stored[i].to_bits() { return describe("float-bits-kept: a present row does not decode to the stored float bit for bit", i); }
        }
    }
    None
}

pub fn search(_seed: u64) -> Option<String> {
    for nullable in [false, true] {
        for present_byte in 0u8..8 {
            if !nullable && present_byte != 0 { continue; }
            for a in 0u8..3 { for b in 0u8..3 { for c in 0u8..3 {
                if let Some(w) = check_dict(nullable, [a, b, c], present_byte) { return Some(w); }
            } } }
            let pool = [0u8, 1, 7, 255];
            for offset in [0i64, -3, 1000, i64::MIN / 4] { for delta in [false, true] {
                for &a in &pool { for &b in &pool { for &c in &pool {
                    if let Some(w) = check_ints(nullable, offset, delta, [a, b, c], present_byte) { return Some(w); }
                } } }
            } }
            let pool64 = [0i64, -1, i64::MAX / 2, i64::MIN / 2 + 7];
            for delta in [false, true] {
                for &a in &pool64 { for &b in &pool64 { for &c in &pool64 {
                    // stored differences come from real column values: their running sums fit i64 (U04v delta round trip)
                    if delta && a.checked_add(b).and_then(|s| s.checked_add(c)).is_none() { continue; }
                    if let Some(w) = check_wide_ints(nullable, delta, [a, b, c], present_byte) { return Some(w); }
                } } }
            }
            let poolf = [0.0f64, -0.0, 1.5, f64::NAN, f64::NEG_INFINITY];
            for &a in &poolf { for &b in &poolf { for &c in &poolf {
                if let Some(w) = check_floats(nullable, [a, b, c], present_byte) { return Some(w); }
            } } }
            let pool16 = [0u16, 1, 300, 65535];
            for offset in [0i64, -3, 1000] {
                for &a in &pool16 { for &b in &pool16 { for &c in &pool16 {
                    if let Some(w) = check_lz4_ints(nullable, offset, [a, b, c], present_byte) { return Some(w); }
                } } }
            }
        }
    }
    let long = "x".repeat(300);
    let words = ["", "a", "bc", "unique-string-number-00000001-padding-padding", long.as_str()];
    for compressed in [false, true] {
        for a in 0..words.len() { for b in 0..words.len() { for c in 0..words.len() {
            if let Some(w) = check_packed_strings(compressed, [words[a], words[b], words[c]]) { return Some(w); }
        } } }
    }
    None
}
