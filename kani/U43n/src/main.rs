// native enumeration driver; prints "WITNESS <text>" and exits 1 when a failing input exists
fn main() {
    let seed: u64 = std::env::args().nth(1).and_then(|s| s.parse().ok()).unwrap_or(0);
    match vx_u43n::search(seed) {
        Some(w) => { println!("WITNESS {}", w); std::process::exit(1); }
        None => println!("NO-WITNESS (every column of the pool decodes to the rows that were stored)"),
    }
}
