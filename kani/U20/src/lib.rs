// U20 (Kani, complete): type_conversion.rs Cast impls used by decode (ToI64), by batch merging (int -> float / Val
// unification of partial results) - value preserving, NULL markers mapped to NULL markers.
#![allow(dead_code, unused_imports, non_camel_case_types)]
use ordered_float::OrderedFloat;
pub type of64 = OrderedFloat<f64>;
pub mod value { use ordered_float::OrderedFloat; include!("val.rs"); }
pub use value::Val;
include!("casts.rs");

#[cfg(kani)]
mod proofs {
    use super::*;
    macro_rules! widen_int {
        ($name:ident, $s:ty, $d:ty) => {
            #[kani::proof]
            fn $name() {
                let v: $s = kani::any();
                let r: $d = Cast::<$d>::cast(v);
                assert!(r as i128 == v as i128, "[value-preserved] widening cast keeps the integer value");
            }
        };
    }
    widen_int!(u8_to_i64, u8, i64); widen_int!(u16_to_i64, u16, i64); widen_int!(u32_to_i64, u32, i64);
    widen_int!(u8_to_u64, u8, u64); widen_int!(u16_to_u64, u16, u64); widen_int!(u32_to_u64, u32, u64);

    macro_rules! to_float {
        ($name:ident, $s:ty) => {
            #[kani::proof]
            fn $name() {
                let v: $s = kani::any();
                let r: of64 = Cast::<of64>::cast(v);
                assert!(r.0 as u64 == v as u64 && r.0 >= 0.0, "[value-preserved] narrow integers convert to floats exactly");
                assert!(r.to_bits() != F64_NULL.to_bits(), "[not-null] a value never becomes the float NULL marker");
            }
        };
    }
    to_float!(u8_to_f64, u8); to_float!(u16_to_f64, u16); to_float!(u32_to_f64, u32);

    #[kani::proof]
    fn i64_to_f64() {
        let v: i64 = kani::any();
        let r: of64 = Cast::<of64>::cast(v);
        kani::cover!(v == I64_NULL, "vacuity: NULL marker reachable");
        if v == I64_NULL {
            assert!(r.to_bits() == F64_NULL.to_bits(), "[null-to-null] the integer NULL marker converts to the float NULL marker");
        } else {
            assert!(r.0 == v as f64, "[value] non-NULL integers convert with `as f64`");
            assert!(r.to_bits() != F64_NULL.to_bits(), "[not-null] a value never becomes the float NULL marker");
        }
    }

    #[kani::proof]
    fn ints_to_val() {
        let a: u8 = kani::any(); let b: u16 = kani::any(); let c: u32 = kani::any(); let d: i64 = kani::any();
        assert!(matches!(Cast::<Val>::cast(a), Val::Integer(x) if x == a as i64), "[val-u8] integer value preserved");
        assert!(matches!(Cast::<Val>::cast(b), Val::Integer(x) if x == b as i64), "[val-u16] integer value preserved");
        assert!(matches!(Cast::<Val>::cast(c), Val::Integer(x) if x == c as i64), "[val-u32] integer value preserved");
        // i64::MAX is the engine's reserved integer NULL marker (C01); like the float marker and like the reverse cast
        // (Val::Null -> I64_NULL) it has to come out as Val::Null, or a NULL of one partition meets a number in the merge
        if d == I64_NULL {
            assert!(matches!(Cast::<Val>::cast(d), Val::Null), "[val-i64-null] the integer NULL marker becomes Val::Null");
        } else {
            assert!(matches!(Cast::<Val>::cast(d), Val::Integer(x) if x == d), "[val-i64] integer value preserved");
        }
    }

    #[kani::proof]
    fn float_to_val() {
        let f: f64 = kani::any();
        let v = OrderedFloat(f);
        let r: Val = Cast::<Val>::cast(v);
        if v.to_bits() == F64_NULL.to_bits() {
            assert!(matches!(r, Val::Null), "[null-to-null] the float NULL marker becomes Val::Null");
        } else {
            assert!(matches!(r, Val::Float(x) if x.to_bits() == v.to_bits()), "[bit-exact] other floats are carried bit-exactly");
        }
    }

    #[kani::proof]
    fn opt_str_to_val() {
        let s = "ab";
        let o: Option<&str> = if kani::any() { Some(s) } else { None };
        let r: Val = Cast::<Val>::cast(o);
        match o {
            Some(_) => assert!(matches!(r, Val::Str(x) if x.as_ptr() == s.as_ptr() && x.len() == 2), "[str] present string carried as is"),
            None => assert!(matches!(r, Val::Null), "[null] absent string becomes Val::Null"),
        }
    }

    #[kani::proof]
    fn vx_canary() {
        let x: u8 = kani::any();
        assert!(x < 200, "[canary] must fail");
    }
} // mod proofs
