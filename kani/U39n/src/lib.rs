// U39n (native, BOUNDED enumeration - not a proof): the write-ahead-log payload.  The unmodified sub-crate
// locustdb-serialization is compiled natively (Cap'n Proto is outside both verifiers) and
// EventBuffer::deserialize(EventBuffer::serialize(b)) is compared with b for a pool of buffers that covers every
// ColumnData representation, boundary values and table / column name shapes (C14: "every file the database writes decodes to
// exactly the logical content that was encoded"; C08: acknowledged rows are replayed from these segments).
use locustdb_serialization::api::AnyVal;
use locustdb_serialization::event_buffer::{ColumnBuffer, ColumnData, EventBuffer, TableBuffer};
use std::collections::HashMap;

fn same_val(a: &AnyVal, b: &AnyVal) -> bool {
    match (a, b) { (AnyVal::Int(x), AnyVal::Int(y)) => x == y, (AnyVal::Float(x), AnyVal::Float(y)) => x.to_bits() == y.to_bits(), (AnyVal::Str(x), AnyVal::Str(y)) => x == y, (AnyVal::Null, AnyVal::Null) => true, _ => false }
}
fn same_col(a: &ColumnData, b: &ColumnData) -> bool {
    match (a, b) {
        (ColumnData::Empty, ColumnData::Empty) => true,
        (ColumnData::Dense(x), ColumnData::Dense(y)) => x.len() == y.len() && x.iter().zip(y).all(|(p, q)| p.to_bits() == q.to_bits()),
        (ColumnData::Sparse(x), ColumnData::Sparse(y)) => x.len() == y.len() && x.iter().zip(y).all(|(p, q)| p.0 == q.0 && p.1.to_bits() == q.1.to_bits()),
        (ColumnData::I64(x), ColumnData::I64(y)) => x == y,
        (ColumnData::SparseI64(x), ColumnData::SparseI64(y)) => x == y,
        (ColumnData::String(x), ColumnData::String(y)) => x == y,
        (ColumnData::Mixed(x), ColumnData::Mixed(y)) => x.len() == y.len() && x.iter().zip(y).all(|(p, q)| same_val(p, q)),
        _ => false,
    }
}
fn columns_pool() -> Vec<(&'static str, ColumnData)> {
    let f = [0.5, -0.0, 0.0, f64::MAX, f64::MIN_POSITIVE, 5e-324, f64::INFINITY, f64::NEG_INFINITY, f64::NAN, f64::from_bits(0x7ffa_aaaa_aaaa_aaaa)];
    let i = [0i64, -1, 1, 255, 256, 65535, 65536, i64::MIN, i64::MAX, i64::MAX - 1, 1 << 53, -(1 << 53) - 1];
    vec![
        ("empty", ColumnData::Empty),
        ("dense", ColumnData::Dense(f.to_vec())), ("dense0", ColumnData::Dense(vec![])),
        ("sparse", ColumnData::Sparse(f.iter().enumerate().map(|(k, v)| ((k * k) as u64, *v)).collect())), ("sparse_big_index", ColumnData::Sparse(vec![(u64::MAX, 1.5), (0, -2.5)])),
        ("i64", ColumnData::I64(i.to_vec())), ("i640", ColumnData::I64(vec![])),
        ("sparse_i64", ColumnData::SparseI64(i.iter().enumerate().map(|(k, v)| ((k * 3) as u64, *v)).collect())), ("sparse_i64_big_index", ColumnData::SparseI64(vec![(u64::MAX, i64::MIN)])),
        ("string", ColumnData::String(vec!["".into(), "a".into(), "é".into(), "日本語".into(), "\u{0}".into(), "x".repeat(300), "line\nbreak".into()])), ("string0", ColumnData::String(vec![])),
        ("mixed", ColumnData::Mixed(vec![AnyVal::Int(i64::MIN), AnyVal::Float(f64::NAN), AnyVal::Str("".into()), AnyVal::Null, AnyVal::Str("s".into()), AnyVal::Float(-0.0), AnyVal::Int(0)])), ("mixed0", ColumnData::Mixed(vec![])),
    ]
}
pub fn search() -> Option<String> {
    let names = ["t", "", "a b", "x/y", "..", "ü", "Events", "events"];
    let cols = columns_pool();
    let mut checked = 0usize;
    // every column shape alone under every table name, then all shapes together in one table, then several tables
    let mut buffers: Vec<EventBuffer> = vec![EventBuffer::default()];
    for t in names.iter() { for (cn, c) in cols.iter() {
        let mut m = HashMap::new(); m.insert(cn.to_string(), ColumnBuffer { data: c.clone() });
        let mut tables = HashMap::new(); tables.insert(t.to_string(), table(m));
        buffers.push(EventBuffer { tables });
    } }
    {
        let mut tables = HashMap::new();
        for t in names.iter() { let mut m = HashMap::new(); for (cn, c) in cols.iter() { m.insert(format!("{}-{}", t, cn), ColumnBuffer { data: c.clone() }); } tables.insert(t.to_string(), table(m)); }
        buffers.push(EventBuffer { tables });
    }
    for b in buffers.iter() {
        let bytes = b.serialize();
        let back = match EventBuffer::deserialize(&bytes) { Ok(x) => x, Err(e) => return Some(format!("wal-payload-decodes: a serialized buffer is rejected on read: {:?}", e)) };
        if back.tables.len() != b.tables.len() { return Some(format!("wal-payload-roundtrip: {} tables written, {} read", b.tables.len(), back.tables.len())); }
        for (tn, t) in b.tables.iter() {
            let t2 = match back.tables.get(tn) { Some(x) => x, None => return Some(format!("wal-payload-roundtrip: table {:?} is missing after the round trip", tn)) };
            if t2.len() != t.len() { return Some(format!("wal-payload-roundtrip: table {:?} has {} rows after the round trip instead of {}", tn, t2.len(), t.len())); }
            let c1: HashMap<&String, &ColumnBuffer> = t.columns().collect();
            let c2: HashMap<&String, &ColumnBuffer> = t2.columns().collect();
            if c1.len() != c2.len() { return Some(format!("wal-payload-roundtrip: table {:?}: {} columns written, {} read", tn, c1.len(), c2.len())); }
            for (cn, c) in c1.iter() {
                match c2.get(cn) {
                    Some(d) if same_col(&c.data, &d.data) => { checked += 1; }
                    Some(d) => return Some(format!("wal-payload-roundtrip: column {:?} of table {:?} reads back different: wrote {:?}, read {:?}", cn, tn, c.data, d.data).chars().take(400).collect()),
                    None => return Some(format!("wal-payload-roundtrip: column {:?} of table {:?} is missing after the round trip", cn, tn)),
                }
            }
        }
    }
    if checked == 0 { return Some("pool-empty: nothing was compared".to_string()); }
    None
}
// TableBuffer::new insists on equal lengths (or Empty); the pool puts one column per table or uses the length of the longest
fn table(m: HashMap<String, ColumnBuffer>) -> TableBuffer {
    if m.len() == 1 { return TableBuffer::new(m); }
    // several columns of different lengths: go through the public insert API column by column on tables of one column each is not
    // possible, so restrict a multi-column table to columns of one common length plus Empty ones
    let len = 7usize;
    let m2: HashMap<String, ColumnBuffer> = m.into_iter().filter(|(_, c)| c.data.len() == len || matches!(c.data, ColumnData::Empty)).collect();
    TableBuffer::new(m2)
}
