fn main() {
    match vx_u39n::search() {
        Some(w) => { println!("WITNESS {}", w); std::process::exit(1); }
        None => println!("NO-WITNESS (every buffer of the pool reads back as written)"),
    }
}
