// U24 (Kani, BOUNDED in name length): storage.rs sanitize_table_name - C15: "distinct table names never share files, no
// name can place a file outside the database directory".  The directory name is the cleaned name when cleaning changed
// nothing, otherwise "-<cleaned>-<sha256 of the original>"; the slices below are the cleaning steps and that decision.
#![allow(dead_code)]
include!("sanitize.rs");

#[cfg(kani)]
mod proofs {
    use super::*;
    fn ch(d: u8) -> u8 { match d { 0 => b'E', 1 => b'e', 2 => b'-', 3 => b'.', 4 => b'/', 5 => b'_', 6 => b'7', _ => b' ' } }
    // the digest decision: the cleaned name is used verbatim exactly when it is byte-identical to the requested name
    #[kani::proof]
    #[kani::unwind(6)]
    fn verbatim_only_if_identical() {
        let k: [u8; 4] = kani::any();
        kani::assume(k[0] < 8 && k[1] < 8 && k[2] < 8 && k[3] < 8);
        let a = [ch(k[0]), ch(k[1])];
        let b = [ch(k[2]), ch(k[3])];
        let cleaned: String = unsafe { String::from_utf8_unchecked(vec![a[0], a[1]]) }; // ASCII by construction
        let requested: &str = unsafe { std::str::from_utf8_unchecked(&b) };
        let same = a[0] == b[0] && a[1] == b[1];
        kani::cover!(same, "vacuity: identical names");
        kani::cover!(!same && a[0].to_ascii_lowercase() == b[0].to_ascii_lowercase() && a[1] == b[1], "vacuity: names differing in case only");
        assert!(needs_digest(&cleaned, requested) == !same, "[verbatim-only-if-identical] a directory name without digest is used only for a name that cleaning left byte-identical (else two table names could share a directory)");
        // a cleaned name that lost a character is never used verbatim
        let shorter: String = unsafe { String::from_utf8_unchecked(vec![a[0]]) };
        assert!(needs_digest(&shorter, requested), "[shorter-needs-digest] a name that cleaning shortened carries the digest");
    }
    // the cleaning steps after lower-casing leave only file-system safe characters and no leading '.' or '-'
    #[kani::proof]
    #[kani::unwind(6)]
    fn cleaned_name_is_safe() {
        let k: [u8; 2] = kani::any();
        kani::assume(k[0] < 8 && k[1] < 8);
        let c = clean_after_lowercase(unsafe { String::from_utf8_unchecked(vec![ch(k[0]), ch(k[1])]) });
        let cb = c.as_bytes();
        assert!(cb.len() <= 2, "[no-growth] cleaning never adds characters");
        if cb.len() >= 1 {
            assert!(cb[0].is_ascii_alphanumeric() || cb[0] == b'_', "[no-dot-prefix] the cleaned name starts with a letter, digit or '_' (no '..', no clash with digest-carrying names)");
        }
        if cb.len() == 2 {
            assert!(cb[1].is_ascii_alphanumeric() || cb[1] == b'_' || cb[1] == b'-' || cb[1] == b'.', "[safe-characters] no path separator or other unsafe character survives cleaning");
        }
    }

    #[kani::proof]
    fn vx_canary() {
        let x: u8 = kani::any();
        assert!(x < 200, "[canary] must fail");
    }
} // mod proofs
