// U18 (Kani, complete): WAL cursor primitives of MetaStore, the per-segment classification of Storage::recover
// and the contiguity check of the replay loop (items and slices extracted from /repo).
#![allow(dead_code, unused_imports, unused_macros)]
use std::ops::Range;
pub mod log { macro_rules! info { ($($t:tt)*) => {}; } pub(crate) use info; }
#[derive(Clone, Copy)]
pub struct PathId(pub u64);
impl PathId { pub fn display(&self) -> u64 { self.0 } }
pub struct WalSegment { pub id: u64 }
pub struct Writer { pub deleted: Option<u64>, pub deletes: u32 }
impl Writer { pub fn delete(&mut self, p: &PathId) -> Result<(), ()> { self.deleted = Some(p.0); self.deletes += 1; Ok(()) } }
pub struct DbMeta { pub next_wal_id: u64 }
impl DbMeta { pub fn set_next_wal_id(&mut self, v: u64) { self.next_wal_id = v; } pub fn get_next_wal_id(&self) -> u64 { self.next_wal_id } }
include!("cursor.rs");

#[cfg(kani)]
mod proofs {
    use super::*;

    // C08: ids are unique and increasing; the unflushed range is [cursor, next)
    #[kani::proof]
    fn cursor_primitives() {
        let mut m = MetaStore { next_wal_id: kani::any(), earliest_unflushed_wal_id: kani::any() };
        kani::assume(m.next_wal_id < u64::MAX); // A-wal-ids: fewer than 2^64 - 1 segments ever written
        let n0 = m.next_wal_id;
        let a = m.add_wal_segment();
        assert!(a == n0 && m.next_wal_id == n0 + 1, "[fresh-id] add_wal_segment hands out the next id exactly once");
        assert!(m.next_wal_id() == n0 + 1, "[next-id] next_wal_id reads the counter");
        let r = m.unflushed_wal_ids();
        assert!(r.start == m.earliest_uncommited_wal_id() && r.end == m.next_wal_id, "[unflushed-range] unflushed ids are cursor..next");
        let c: u64 = kani::any();
        m.advance_earliest_unflushed_wal_id(c);
        assert!(m.earliest_uncommited_wal_id() == c && m.next_wal_id == n0 + 1, "[advance] advancing the cursor changes only the cursor");
        let id: u64 = kani::any();
        kani::assume(id < u64::MAX);
        let before = m.next_wal_id;
        m.register_wal_segment(id);
        assert!(m.next_wal_id > id && m.next_wal_id >= before && (m.next_wal_id == before || m.next_wal_id == id + 1), "[register] after registering a replayed segment its id is never handed out again");
    }

    // C08: "nothing acknowledged is lost and nothing is replayed twice": a segment is replayed iff id >= cursor
    #[kani::proof]
    #[kani::unwind(3)]
    fn recover_classification() {
        let mut m = MetaStore { next_wal_id: kani::any(), earliest_unflushed_wal_id: kani::any() };
        let cursor = m.earliest_uncommited_wal_id();
        let id: u64 = kani::any();
        kani::assume(id < u64::MAX);
        let size: u64 = kani::any();
        let mut wal_size: u64 = kani::any();
        kani::assume(wal_size <= u64::MAX - size);
        let w0 = wal_size;
        let n0 = m.next_wal_id;
        let readonly: bool = kani::any();
        let mut writer = Writer { deleted: None, deletes: 0 };
        let mut segs: Vec<WalSegment> = Vec::new();
        recover_one(&mut m, &mut writer, readonly, cursor, PathId(id), WalSegment { id }, size, &mut wal_size, &mut segs);
        if id >= cursor {
            assert!(segs.len() == 1 && segs[0].id == id, "[replayed] a segment at or after the cursor is replayed");
            assert!(writer.deletes == 0, "[kept] a replayed segment is not deleted");
            assert!(m.next_wal_id > id, "[registered] a replayed segment is registered");
            assert!(wal_size == w0 + size, "[accounted] its size is added to the WAL size");
        } else {
            assert!(segs.is_empty(), "[not-replayed] a segment before the cursor is not replayed (already flushed)");
            assert!(writer.deletes == if readonly { 0 } else { 1 } && (readonly || writer.deleted == Some(id)), "[deleted] it is deleted (unless read-only)");
            assert!(wal_size == w0 && m.next_wal_id == n0, "[untouched] counters untouched");
        }
    }

    #[kani::proof]
    fn replay_contiguity() {
        let mut next: Option<u64> = if kani::any() { Some(kani::any()) } else { None };
        let id: u64 = kani::any();
        kani::assume(id < u64::MAX);
        // the assertion in the real code fires (panic) exactly for a gap; Kani reports that as a failed check, so
        // restrict to the contiguous case and check the successor
        kani::assume(next.is_none() || next == Some(id));
        replay_step(&mut next, &WalSegment { id });
        assert!(next == Some(id + 1), "[expects-successor] after replaying id the next expected id is id + 1");
    }

    // C08 / C14: the catalogue persists the flush cursor; after a restart the cursor is what it was, and ids at or above it
    // are never considered flushed
    #[kani::proof]
    fn persisted_cursor_roundtrip() {
        let m = MetaStore { next_wal_id: kani::any(), earliest_unflushed_wal_id: kani::any() };
        kani::assume(m.earliest_unflushed_wal_id <= m.next_wal_id);
        let mut msg = DbMeta { next_wal_id: kani::any() };
        ser_cursor(&m, &mut msg);
        let back = de_cursor_build(de_cursor_read(&msg));
        assert!(back.earliest_unflushed_wal_id == m.earliest_unflushed_wal_id, "[cursor-roundtrip] the persisted cursor is the flush cursor: segments at or after it are replayed on restart");
        assert!(back.next_wal_id <= m.next_wal_id && back.next_wal_id >= back.earliest_unflushed_wal_id, "[next-id-not-ahead] the restored next id is not ahead of ids that were handed out (replayed segments register themselves)");
    }

    #[kani::proof]
    fn vx_canary() {
        let x: u8 = kani::any();
        assert!(x < 200, "[canary] must fail");
    }
} // mod proofs
