// U16 (Kani, complete per obligation): XOR float codec of locustdb-compression-utils/src/xor_float/double.rs.
// Inductive argument whose verification conditions are discharged by Kani over the EXTRACTED loop bodies:
//   base : the two prologues establish Inv
//   step : for every state satisfying Inv, every next float f (all 2^64 bit patterns), every mantissa setting and
//          every max_regret <= u32::MAX - 64: the decoder body, fed the bits the encoder body wrote, consumes exactly
//          those bits, reproduces f under the mask, keeps the unmasked bits of the first value, and re-establishes Inv;
//          no panic, no shift overflow, no `regret` overflow.
// A-bitbuffer: BitWriteStream/BitReadStream (LittleEndian) are replaced by a bit FIFO (bits come back in the order written,
// least significant bit of each write first).  A-ind-scheme: base + step + "both loops run len-1 times" imply the round trip.
#![allow(dead_code, unused_imports, unused_mut, unused_variables, unused_assignments)]
use num::{NumCast, PrimInt, ToPrimitive};
include!("err.rs");

#[derive(Clone, Copy)]
pub struct Enc { pub last_value: f64, pub last_leading_zeros: u32, pub last_trailing_zeros: u32, pub last_significant_bits: u32, pub regret: u32 }
#[derive(Clone, Copy)]
pub struct Dec { pub last: u64, pub last_trailing_zeros: u32, pub last_significant_bits: u32 }

// bit FIFO (at most 128 bits in flight; one encoder step writes at most 2 + 5 + 6 + 64 = 77)
pub struct Fifo { pub bits: u128, pub count: u32, pub bad: bool }
impl Fifo {
    pub fn new() -> Fifo { Fifo { bits: 0, count: 0, bad: false } }
    pub fn write_int<T: PrimInt>(&mut self, v: T, n: usize) -> Result<(), Error> {
        let v: u64 = v.to_u64().unwrap();
        if n > 64 || self.count as usize + n > 128 { self.bad = true; return Err(Error::Eof); }
        // bitbuffer refuses values that do not fit into n bits
        if n < 64 && (v >> n) != 0 { self.bad = true; return Err(Error::Eof); }
        if n > 0 { self.bits |= (v as u128) << self.count; self.count += n as u32; }
        Ok(())
    }
    pub fn read_int<T: PrimInt>(&mut self, n: usize) -> Result<T, ()> {
        if n > 64 || n as u32 > self.count { return Err(()); }
        let v: u64 = if n == 0 { 0 } else { (self.bits & ((1u128 << n) - 1)) as u64 };
        if n > 0 { self.bits >>= n; self.count -= n as u32; }
        Ok(<T as NumCast>::from(v).unwrap())
    }
}

include!("bodies.rs");

#[cfg(kani)]
mod proofs {
    use super::*;

    // window: initial (no window yet) or a consistent window shared by encoder and decoder
    fn inv(e: &Enc, d: &Dec, mask: u64, f0: u64, max_regret: u32) -> bool {
        let initial = e.last_leading_zeros == 65 && e.last_trailing_zeros == 65 && e.last_significant_bits == 0
            && d.last_trailing_zeros == 65 && d.last_significant_bits == 0 && e.regret == 0;
        let window = e.last_leading_zeros <= 31 && e.last_trailing_zeros <= 63 && e.last_significant_bits >= 1
            && e.last_leading_zeros + e.last_trailing_zeros <= 63
            && e.last_significant_bits == 64 - e.last_leading_zeros - e.last_trailing_zeros
            && d.last_trailing_zeros == e.last_trailing_zeros && d.last_significant_bits == e.last_significant_bits;
        (initial || window)
            && (d.last & mask) == (e.last_value.to_bits() & mask)
            && (d.last & !mask) == (f0 & !mask)
            && e.regret as u64 <= max_regret as u64 + 63
    }

    fn any_mantissa() -> Option<u32> {
        if kani::any() { let m: u32 = kani::any(); kani::assume(m <= 52); Some(m) } else { None }
    }

    #[kani::proof]
    fn base() {
        let first: f64 = kani::any();
        let floats = [first];
        let mantissa = any_mantissa();
        let mask = enc_mask(mantissa);
        let max_regret: u32 = kani::any();
        let e = enc_init(&floats);
        // the first value is written and read back as 64 raw bits
        let mut fifo = Fifo::new();
        fifo.write_int(first.to_bits(), 64).unwrap();
        let got: u64 = fifo.read_int(64).unwrap();
        let d = dec_init(got);
        assert!(got == first.to_bits(), "[first-value] the first value travels bit-exactly");
        assert!(inv(&e, &d, mask, first.to_bits(), max_regret), "[base] prologues establish the invariant");
        match mantissa {
            None => assert!(mask == u64::MAX, "[mask-none] no mantissa setting keeps every bit"),
            Some(m) => assert!(mask == !((1u64 << (52 - m)) - 1), "[mask-m] sign, exponent and the m leading mantissa bits are kept"),
        }
    }

    #[kani::proof]
    fn step() {
        let mut e = Enc { last_value: f64::from_bits(kani::any()), last_leading_zeros: kani::any(), last_trailing_zeros: kani::any(),
                          last_significant_bits: kani::any(), regret: kani::any() };
        let mut d = Dec { last: kani::any(), last_trailing_zeros: kani::any(), last_significant_bits: kani::any() };
        let mask = enc_mask(any_mantissa());
        let f0: u64 = kani::any();
        let max_regret: u32 = kani::any();
        kani::assume(max_regret <= u32::MAX - 64); // established by the only caller (encode_column passes 100)
        kani::assume(inv(&e, &d, mask, f0, max_regret));
        let f: f64 = f64::from_bits(kani::any());
        let mut fifo = Fifo::new();
        enc_body(&mut e, &mut fifo, f, mask, max_regret);
        kani::cover!(fifo.count == 1, "vacuity: repeat path reachable");
        kani::cover!(fifo.count > 13, "vacuity: new-window path reachable");
        assert!(!fifo.bad, "[writes-fit] every written value fits the width it is written with");
        let mut out = 0.0f64;
        let r = dec_body(&mut d, &mut fifo, &mut out);
        assert!(r.is_ok(), "[decodes] the decoder accepts what the encoder wrote");
        assert!(fifo.count == 0, "[consumes-all] the decoder consumes exactly the bits written for this value");
        assert!((out.to_bits() & mask) == (f.to_bits() & mask), "[value-under-mask] decoded value keeps sign, exponent and the requested mantissa bits (bit-exact without mantissa setting)");
        assert!((out.to_bits() & !mask) == (f0 & !mask), "[unmasked-bits] dropped mantissa bits stay those of the first value");
        assert!(inv(&e, &d, mask, f0, max_regret), "[step] the invariant is re-established");
    }

    #[kani::proof]
    fn vx_canary() {
        let x: u8 = kani::any();
        assert!(x < 200, "[canary] must fail");
    }
} // mod proofs
