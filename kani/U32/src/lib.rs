// U32 (Kani, complete): the packed grouping key - BitShiftLeftAdd::perform (pack one more field above the fields packed so
// far) and BitUnpackOperator::execute (extract a field) are inverse for every layout try_bitpacking can produce
// (fields side by side, 63 bits in total at most).  C04: every distinct combination of grouping values gets its own key
// and decodes back to exactly those values.
#![allow(dead_code, unused_variables)]
pub struct BitUnpackParams { pub shift: u8, pub width: u8 }
include!("pack.rs");

#[cfg(kani)]
mod proofs {
    use super::*;
    fn unpack1(x: i64, shift: u8, width: u8) -> i64 {
        let mut out = Vec::with_capacity(1);
        bit_unpack(&BitUnpackParams { shift, width }, &[x], &mut out);
        assert!(out.len() == 1, "[one-out-per-in] one unpacked value per packed key");
        out[0]
    }
    // induction step over the fields of a key: `lower` holds the fields packed so far in its low `shift` bits; packing a
    // new field of `width` bits above them (shift + width <= 63) yields a key from which the new field and every field
    // inside `lower` read back unchanged
    #[kani::proof]
    #[kani::unwind(3)]
    fn pack_then_unpack_is_identity() {
        let (shift, width): (u8, u8) = (kani::any(), kani::any());
        kani::assume(shift as u32 + width as u32 <= 63);
        let (lower, value): (i64, i64) = (kani::any(), kani::any());
        kani::assume(0 <= lower && (lower as u128) < (1u128 << shift));
        kani::assume(0 <= value && (value as u128) < (1u128 << width));
        let key = BitShiftLeftAdd::perform(lower, value, shift as i64);
        assert!(0 <= key && (key as u128) < (1u128 << (shift + width)), "[key-in-range] the key occupies shift + width bits");
        assert!(unpack1(key, shift, width) == value, "[new-field-reads-back] the field just packed reads back unchanged");
        // any earlier field (s, w) with s + w <= shift
        let (s, w): (u8, u8) = (kani::any(), kani::any());
        kani::assume(s as u32 + w as u32 <= shift as u32);
        assert!(unpack1(key, s, w) == unpack1(lower, s, w), "[earlier-fields-untouched] packing a field does not disturb the fields below it");
    }
    // a single 63-bit field (one GROUP BY column spanning more than 2^62 values) is extracted without arithmetic panic
    #[kani::proof]
    #[kani::unwind(3)]
    fn widest_field() {
        let v: i64 = kani::any();
        kani::assume(v >= 0);
        assert!(unpack1(v, 0, 63) == v, "[widest-field] a 63-bit field reads back unchanged");
    }
    #[kani::proof]
    fn vx_canary() {
        let x: u8 = kani::any();
        assert!(x < 200, "[canary] must fail");
    }
} // mod proofs
