// U14b (Kani, complete): A-bytes - the big-endian conversions used by the envelope of disk_store/file_writer.rs are an
// inverse pair (all 2^64 values, all 2^64 byte arrays).  U14v (Verus) assumes exactly this about spec_be64 / spec_be64_decode.
#![allow(dead_code)]
#[cfg(kani)]
mod proofs {
    #[kani::proof]
    fn be64_inverse_pair() {
        let x: u64 = kani::any();
        assert!(u64::from_be_bytes(x.to_be_bytes()) == x, "[decode-encode] from_be_bytes(to_be_bytes(x)) == x");
        let b: [u8; 8] = kani::any();
        assert!(u64::from_be_bytes(b).to_be_bytes() == b, "[encode-decode] to_be_bytes(from_be_bytes(b)) == b");
        let n: usize = kani::any();
        assert!(usize::from_be_bytes(n.to_be_bytes()) == n && (n as u64).to_be_bytes() == n.to_be_bytes(), "[usize-is-u64] usize conversions agree with u64 (64-bit target)");
    }
    #[kani::proof]
    fn vx_canary() {
        let x: u8 = kani::any();
        assert!(x < 200, "[canary] must fail");
    }
} // mod proofs
