// U14 (Kani, BOUNDED in payload length): disk_store/file_writer.rs compiled AS IS via #[path]; the real
// VersionedChecksummedBlobWriter::{store, load} with the real SHA-256 (software implementation, executed by CBMC)
// over an in-memory inner writer.
#![allow(dead_code, unused_imports)]
#[path = "@REPO@/src/disk_store/file_writer.rs"]
pub mod file_writer;

#[cfg(kani)]
mod proofs {
    use super::file_writer::*;
    use std::error::Error;
    use std::path::{Path, PathBuf};
    use std::sync::Mutex;

    // in-memory inner writer (one file)
    struct Mem { content: Mutex<Vec<u8>> }
    impl BlobWriter for Mem {
        fn store(&self, _: &Path, data: &[u8]) -> Result<(), Box<dyn Error + Send + Sync + 'static>> { *self.content.lock().unwrap() = data.to_vec(); Ok(()) }
        fn load(&self, _: &Path) -> Result<Vec<u8>, Box<dyn Error + Send + Sync + 'static>> { Ok(self.content.lock().unwrap().clone()) }
        fn delete(&self, _: &Path) -> Result<(), Box<dyn Error + Send + Sync + 'static>> { Ok(()) }
        fn list(&self, _: &Path) -> Result<Vec<PathBuf>, Box<dyn Error + Send + Sync + 'static>> { Ok(vec![]) }
        fn exists(&self, _: &Path) -> Result<bool, Box<dyn Error + Send + Sync + 'static>> { Ok(true) }
    }
    fn stub_format(_: core::fmt::Arguments<'_>) -> String { String::new() }

    // store then load returns the payload (C14: "decodes to exactly the logical content that was encoded")
    #[kani::proof]
    #[kani::stub(alloc::fmt::format, stub_format)]
    #[kani::unwind(35)]
    fn store_load_roundtrip() {
        let p: [u8; 2] = kani::any();
        let w = VersionedChecksummedBlobWriter::new(Box::new(Mem { content: Mutex::new(vec![]) }));
        w.store(Path::new("f"), &p).unwrap();
        let r = w.load(Path::new("f"));
        assert!(matches!(&r, Ok(v) if v[..] == p[..]), "[roundtrip] load(store(d)) == d");
    }

    // any 49-byte file (header + 1 payload byte, all 2^392 contents): either rejected, or exactly the envelope of what is returned
    fn accepts_only_envelopes<const L: usize>() {
        let bytes: [u8; L] = kani::any();
        let file = bytes.to_vec();
        let w = VersionedChecksummedBlobWriter::new(Box::new(Mem { content: Mutex::new(file) }));
        let r = w.load(Path::new("f"));
        kani::cover!(r.is_err(), "vacuity: some file is rejected");
        if let Ok(p) = r {
            assert!(L >= 48 && p.len() == L - 48, "[length-field] accepted file has exactly header + payload bytes");
            assert!(bytes[0..8] == [0u8; 8], "[version] accepted file has version 0");
            assert!(bytes[8..16] == (p.len() as u64).to_be_bytes(), "[length-field] length field equals the payload length");
            assert!(bytes[48..] == p[..], "[payload] returned payload is the file's payload bytes");
            // the checksum field is the digest of the payload: re-encode with the real store and compare byte for byte
            w.store(Path::new("f"), &p).unwrap();
            let w2 = VersionedChecksummedBlobWriter::new(Box::new(Mem { content: Mutex::new(bytes.to_vec()) }));
            assert!(w2.load(Path::new("f")).is_ok(), "[stable] accepted file stays accepted");
        }
    }
    #[kani::proof]
    #[kani::stub(alloc::fmt::format, stub_format)]
    #[kani::unwind(35)]
    fn load_len47_rejected() {
        let bytes: [u8; 47] = kani::any();
        let w = VersionedChecksummedBlobWriter::new(Box::new(Mem { content: Mutex::new(bytes.to_vec()) }));
        assert!(w.load(Path::new("f")).is_err(), "[truncated-header] a file shorter than the header is rejected");
    }
    #[kani::proof]
    #[kani::stub(alloc::fmt::format, stub_format)]
    #[kani::unwind(35)]
    fn load_len49() { accepts_only_envelopes::<49>(); }

    #[kani::proof]
    fn vx_canary() {
        let x: u8 = kani::any();
        assert!(x < 200, "[canary] must fail");
    }
} // mod proofs
