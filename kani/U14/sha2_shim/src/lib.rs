// Stand-in for the `sha2` crate (A-sha): same API surface as used by disk_store/file_writer.rs, cheap 32-byte digest.
// The harness never relies on collision resistance: it re-encodes whatever `load` accepts with the real `store` and
// compares byte for byte, which is meaningful for any deterministic digest function.
pub struct Sha256 { acc: [u8; 32], n: usize }
pub struct Output(pub [u8; 32]);
pub trait Digest {
    fn new() -> Self;
    fn update(&mut self, data: impl AsRef<[u8]>);
    fn finalize(self) -> Output;
}
impl Digest for Sha256 {
    fn new() -> Self { Sha256 { acc: [0x5a; 32], n: 0 } }
    fn update(&mut self, data: impl AsRef<[u8]>) {
        for b in data.as_ref() {
            let k = self.n % 32;
            self.acc[k] = self.acc[k].rotate_left(3) ^ *b ^ (self.n as u8);
            self.n += 1;
        }
    }
    fn finalize(mut self) -> Output {
        self.acc[31] ^= self.n as u8;
        Output(self.acc)
    }
}
impl Output {
    pub fn iter(&self) -> std::slice::Iter<'_, u8> { self.0.iter() }
    pub fn as_slice(&self) -> &[u8] { &self.0 }
}
impl std::fmt::LowerHex for Output {
    fn fmt(&self, _: &mut std::fmt::Formatter<'_>) -> std::fmt::Result { Ok(()) }
}
