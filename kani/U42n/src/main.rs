// native enumeration driver; prints "WITNESS <text>" and exits 1 when a failing input exists
fn main() {
    let seed: u64 = std::env::args().nth(1).and_then(|s| s.parse().ok()).unwrap_or(0);
    let thorough = std::env::var("VERIF_TIER").map(|t| t == "thorough").unwrap_or(false);
    let max_steps = if thorough { 4 } else { 3 };
    match vx_u42n::search(seed, max_steps) {
        Some(w) => { println!("WITNESS {}", w); std::process::exit(1); }
        None => println!("NO-WITNESS (every history of <= {} steps over restart and 31 batch shapes)", max_steps),
    }
}
