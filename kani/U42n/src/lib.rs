// U42n (native, BOUNDED exhaustive enumeration - not a proof): the catalogue glue of C13.  Real code, compiled natively
// (HashMap / HashSet / String are beyond CBMC and Verus): the catalogue part of InnerLocustDB::ingest_efficient (two statement
// slices: everything from the first catalogue statement to the write-ahead step, and the loop that ingests the table buffers),
// create_if_empty_no_ingest, Table::{name, init_column_names, ingest_homogeneous, columns_names_loaded, column_names,
// new_column_names} (whole fns), the name set a table is created with (expression slice of Table::new), and which
// table / column the column list is read from (statement slice of schedule_query_column_names); TableBuffer / EventBuffer are
// the unmodified sub-crate.  Histories of batches and restarts over one table are enumerated.
#![allow(dead_code, unused_imports, unused_variables, unused_mut)]
use std::collections::{HashMap, HashSet};
use std::sync::{Arc, Mutex, RwLock};
use std::time::{SystemTime, UNIX_EPOCH};
use locustdb_serialization::event_buffer::{ColumnBuffer, ColumnData, EventBuffer, TableBuffer};

// shims (R10)
#[derive(Clone, Default)] pub struct Lru;
#[derive(Debug)] pub struct QueryError(pub String);
pub struct Query { pub table: String, pub column: String }
impl Query { pub fn read_column(table: &str, column: &str) -> Query { Query { table: table.to_string(), column: column.to_string() } } }
// what was ingested, column by column: the data a table holds (it survives a restart)
pub struct InputColumn(pub ColumnData);
impl InputColumn { pub fn from_column_data(column_data: ColumnData, _rows: u64) -> Self { InputColumn(column_data) } }
#[derive(Default)] pub struct Buffer { pub batches: Vec<HashMap<String, ColumnData>> }
impl Buffer { pub fn push_typed_cols(&mut self, columns: HashMap<String, InputColumn>) { self.batches.push(columns.into_iter().map(|(k, v)| (k, v.0)).collect()); } }
pub struct Table { pub name: String, pub buffer: Mutex<Buffer>, pub column_names: RwLock<Option<HashSet<String>>> }
impl Table {
    pub fn new(name: &str, _lru: Lru, column_names: Option<HashSet<String>>) -> Table {
        Table { name: name.to_string(), buffer: Mutex::new(Buffer::default()), column_names: RwLock::new(initial_column_names(name, column_names)) }
    }
}
pub struct InnerLocustDB { pub tables: RwLock<HashMap<String, Arc<Table>>>, pub lru: Lru }
impl InnerLocustDB {
    // A-query: reading one column of a table returns the strings stored in it (C01); the table and the column are the ones
    // the real schedule_query_column_names names (slice catalogue_query)
    pub fn query_column_names(&self, table: &str) -> Result<Vec<String>, QueryError> {
        let q = catalogue_query(table);
        let tables = self.tables.read().unwrap();
        let t = tables.get(&q.table).ok_or_else(|| QueryError(format!("Table column name meta table {} not found for table {}", q.table, table)))?;
        let mut out = Vec::new();
        for b in t.buffer.lock().unwrap().batches.iter() {
            match b.get(&q.column) {
                Some(ColumnData::String(names)) => out.extend(names.iter().cloned()),
                _ => return Err(QueryError(format!("Expected single string column in meta columns table for {}", table))),
            }
        }
        Ok(out)
    }
}
include!("catalogue.rs");

pub const NAMES: [&str; 4] = ["a", "A", "\u{e9}", "zzzzzzzzzzzzzzzzzzzzzzzzzzzzzzzzzzzzzzzzzzzzzzzzzzzzzzzzzzzzzzzzzzzzzz"];

fn fresh_db() -> InnerLocustDB {
    let db = InnerLocustDB { tables: RwLock::new(HashMap::new()), lru: Lru };
    let _ = db.create_if_empty_no_ingest("_meta_tables"); // as InnerLocustDB::new does
    db
}
// restart: every table that has data is created again as restore_from_disk does (Table::new(name, lru, None)), its data kept
fn restart(db: InnerLocustDB) -> InnerLocustDB {
    let old = db.tables.into_inner().unwrap();
    let db2 = InnerLocustDB { tables: RwLock::new(HashMap::new()), lru: Lru };
    for (name, t) in old.into_iter() {
        let batches = std::mem::take(&mut t.buffer.lock().unwrap().batches);
        if batches.is_empty() { continue; }
        let nt = Table::new(&name, Lru, None);
        nt.buffer.lock().unwrap().batches = batches;
        db2.tables.write().unwrap().insert(name, Arc::new(nt));
    }
    let _ = db2.create_if_empty_no_ingest("_meta_tables");
    db2
}
fn data_columns(t: &Table) -> HashSet<String> { t.buffer.lock().unwrap().batches.iter().flat_map(|b| b.keys().cloned()).collect() }
fn strings_of(t: &Table, column: &str) -> Vec<String> {
    let mut out = Vec::new();
    for b in t.buffer.lock().unwrap().batches.iter() { if let Some(ColumnData::String(v)) = b.get(column) { out.extend(v.iter().cloned()); } }
    out
}

// one step of a history: a batch for table "t" whose columns are a subset of NAMES (mask), each column either holding one
// value or empty (a column mentioned with NULLs only), or a restart
#[derive(Clone, Copy, Debug)]
pub enum Step { Batch { present: u8, empty: u8 }, Restart }

fn check_history(steps: &[Step]) -> Option<String> {
    let mut db = fresh_db();
    let mut ever: HashSet<String> = HashSet::new();
    for (k, step) in steps.iter().enumerate() {
        let describe = |what: String| Some(format!("{}; history {:?}, step {}", what, steps, k));
        match *step {
            Step::Restart => { db = restart(db); }
            Step::Batch { present, empty } => {
                let mut columns = HashMap::new();
                for (i, n) in NAMES.iter().enumerate() {
                    if present >> i & 1 == 1 {
                        let data = if empty >> i & 1 == 1 { ColumnData::Empty } else { ColumnData::I64(vec![7]) };
                        columns.insert(n.to_string(), ColumnBuffer { data });
                        ever.insert(n.to_string());
                    }
                }
                columns.insert("timestamp".to_string(), ColumnBuffer { data: ColumnData::Dense(vec![1.0]) });
                ever.insert("timestamp".to_string());
                let mut events = EventBuffer { tables: HashMap::from([("t".to_string(), TableBuffer::new(columns))]) };
                add_catalogue_rows(&db, &mut events);
                ingest_all(&db, events);
            }
        }
        let tables = db.tables.read().unwrap();
        // the name set of every table whose names are loaded is exactly the set of columns the table holds: compaction
        // rebuilds a partition from this set, so a column missing from it is dropped and a name without data becomes a column
        for (name, t) in tables.iter() {
            if !t.columns_names_loaded() { continue; }
            let names = t.column_names();
            let data = data_columns(t);
            if data.is_empty() && !name.starts_with("_meta") { continue; }
            if !data.is_subset(&names) {
                let mut missing: Vec<&String> = data.difference(&names).collect(); missing.sort();
                return describe(format!("name-set-covers-data: table {:?} holds data in column(s) {:?} that its column-name set {:?} does not list (compaction would not carry them over)", name, missing, { let mut v: Vec<&String> = names.iter().collect(); v.sort(); v }));
            }
            if !data.is_empty() && !names.is_subset(&data) {
                let mut extra: Vec<&String> = names.difference(&data).collect(); extra.sort();
                return describe(format!("name-set-has-no-phantoms: table {:?} lists column(s) {:?} that were never ingested", name, extra));
            }
        }
        // the catalogue of "t" names every column ever ingested into it exactly once
        if let Some(t) = tables.get("t") {
            let q = catalogue_query("t");
            let listed = match tables.get(&q.table) { Some(c) => strings_of(c, &q.column), None => Vec::new() };
            let mut sorted = listed.clone(); sorted.sort();
            let mut want: Vec<String> = ever.iter().cloned().collect(); want.sort();
            if sorted != want { return describe(format!("catalogue-lists-each-column-once: the column catalogue of \"t\" lists {:?}, the columns ever ingested are {:?}", sorted, want)); }
        }
        // the table catalogue names every table exactly once
        if let Some(mt) = tables.get("_meta_tables") {
            let mut listed = strings_of(mt, "name"); listed.sort();
            let mut want: Vec<String> = tables.keys().filter(|n| n.as_str() != "_meta_tables").cloned().collect(); want.sort();
            if listed != want { return describe(format!("catalogue-lists-each-table-once: _meta_tables lists {:?}, the tables are {:?}", listed, want)); }
        }
    }
    None
}

pub fn search(_seed: u64, max_steps: usize) -> Option<String> {
    // every history of up to max_steps steps over: restart, and batches whose present-mask ranges over all 16 subsets of the
    // name pool, with either no empty column or the lowest present column empty
    let mut alphabet: Vec<Step> = vec![Step::Restart];
    for present in 0u8..16 {
        alphabet.push(Step::Batch { present, empty: 0 });
        if present != 0 { alphabet.push(Step::Batch { present, empty: present & present.wrapping_neg() }); }
    }
    let mut hist: Vec<Step> = Vec::new();
    fn rec(alphabet: &[Step], max_steps: usize, hist: &mut Vec<Step>) -> Option<String> {
        if !hist.is_empty() { if let Some(w) = check_history(hist) { return Some(w); } }
        if hist.len() == max_steps { return None; }
        for s in alphabet { hist.push(*s); let r = rec(alphabet, max_steps, hist); hist.pop(); if r.is_some() { return r; } }
        None
    }
    rec(&alphabet, max_steps, &mut hist)
}
