// U13 (Kani, complete): LIMIT / OFFSET row-window arithmetic.  Statement slices and items extracted from /repo.
#![allow(dead_code, unused_imports)]
use std::cmp;
use std::cmp::min;
pub struct FullResult { pub n: usize }
impl FullResult { pub fn len(&self) -> usize { self.n } }
include!("slices.rs");

#[cfg(kani)]
mod proofs {
    use super::*;

    // C05/C12: "LIMIT n OFFSET m returns rows m+1..m+n of that order, fewer or none if the table is shorter";
    // "no more rows than LIMIT allows"; never a panic.
    #[kani::proof]
    fn output_window_contract() {
        let lo = LimitClause { limit: kani::any(), offset: kani::any() };
        let len: usize = kani::any();
        let (limit, offset, count) = output_window(&lo, &FullResult { n: len });
        kani::cover!(count > 0, "vacuity: non-empty window reachable");
        kani::cover!(lo.offset as usize > len, "vacuity: offset beyond the table reachable");
        let expect = cmp::min(lo.limit as usize, len.saturating_sub(lo.offset as usize));
        assert!(count == expect, "[window-size] rows returned = min(limit, len - offset) and 0 when offset >= len");
        assert!(count <= limit, "[at-most-limit] never more rows than LIMIT");
        assert!(offset.checked_add(count).map_or(false, |e| e <= len) || count == 0, "[in-bounds] the window offset..offset+count lies inside the result");
    }

    #[kani::proof]
    fn combined_limit_contract() {
        let lo = LimitClause { limit: kani::any(), offset: kani::any() };
        let r = combined_limit(&lo);
        let e = lo.limit as u128 + lo.offset as u128;
        assert!(r as u128 == if e > usize::MAX as u128 { usize::MAX as u128 } else { e }, "[combined-limit] rows kept while merging = limit + offset, saturating");
    }

    #[kani::proof]
    fn partition_limit_contract() {
        let lo = LimitClause { limit: kani::any(), offset: kani::any() };
        let r = partition_limit(&lo);
        let e = lo.limit as u128 + lo.offset as u128;
        assert!(r as u128 == if e > usize::MAX as u128 { usize::MAX as u128 } else { e }, "[partition-limit] per-partition row budget = limit + offset, saturating");
    }

    // the NULL column is sliced with the same window as every other column: it must yield exactly `count` rows
    #[kani::proof]
    fn null_column_window() {
        let lo = LimitClause { limit: kani::any(), offset: kani::any() };
        let len: usize = kani::any();
        let (_limit, offset, count) = output_window(&lo, &FullResult { n: len });
        let rows = null_column_slice(&len, offset, offset + count);
        assert!(rows == count, "[null-column-window] a NULL column contributes exactly as many rows as the other columns of the window");
    }

    #[kani::proof]
    fn vx_canary() {
        let x: u8 = kani::any();
        assert!(x < 200, "[canary] must fail");
    }
} // mod proofs
