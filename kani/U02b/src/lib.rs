// U02b (Kani, BOUNDED fallback / witness search for U02): the real ColumnBuffer null-map code driven through short
// operation sequences against a row-level reference model.  Bounds: <= 3 operations, <= 9 rows per operation.
// Used (a) in the thorough tier, (b) when the Verus unit U02 loses an anchor or fails, to look for a concrete failing input.
#![allow(dead_code, unused_imports)]
pub mod bitvec { include!("bitvec.rs"); }
pub mod shims {
    // reduced stand-ins for types the null-map code only stores (hand-written, listed as trusted glue)
    #[derive(Default, Clone, Debug)]
    pub struct StringColBuffer { pub values: Vec<Sv> }
    impl StringColBuffer { pub fn push(&mut self, _s: &str) { self.values.push(Sv); } }
    // a stored string, without formatting machinery (the unreachable String -> Mixed arm calls s.to_string())
    #[derive(Default, Clone, Debug)]
    pub struct Sv;
    impl Sv { pub fn to_string(&self) -> String { String::new() } }
    #[derive(Debug, Clone, PartialEq)]
    pub enum RawVal { Int(i64), Float(ordered_float::OrderedFloat<f64>), Str(String), Null }
}
pub mod column_buffer {
    use super::bitvec::*;
    use super::shims::*;
    use std::cmp;
    include!("column_buffer.rs");
}

// ---- native witness search (not a proof, never used to claim that a property holds): the same real code driven over a
// pool of small shapes; used only to turn a lost anchor / failed Verus obligation of U02 into a concrete failing input ----
#[cfg(not(kani))]
pub mod witness {
    use super::bitvec::*;
    use super::column_buffer::*;

    fn null_at(cb: &ColumnBuffer, i: usize) -> bool {
        match &cb.present {
            None => matches!(cb.buffer, TypedBuffer::Empty),
            Some(p) => matches!(cb.buffer, TypedBuffer::Empty) || !BitVec::is_set(p, i),
        }
    }
    #[derive(Clone, Debug)]
    pub enum Op { Nulls(usize), Ints(Vec<i64>, Option<Vec<u8>>) }

    fn apply(cb: &mut ColumnBuffer, model: &mut Vec<Option<i64>>, op: &Op) {
        match op {
            Op::Nulls(n) => { cb.push_nulls(*n); for _ in 0..*n { model.push(None); } }
            Op::Ints(v, m) => {
                cb.push_ints(v.iter().copied(), m.as_deref());
                for (k, x) in v.iter().enumerate() {
                    let present = m.as_ref().map_or(true, |m| BitVec::is_set(&m[..], k));
                    model.push(if present { Some(*x) } else { None });
                }
            }
        }
    }
    fn check(cb: &ColumnBuffer, model: &[Option<i64>]) -> Option<&'static str> {
        if cb.len() != model.len() { return Some("row-count"); }
        for i in 0..model.len() {
            if null_at(cb, i) != model[i].is_none() { return Some("null-exactly-where-missing"); }
            if let (TypedBuffer::Int(b), Some(v)) = (&cb.buffer, model[i]) { if b.data[i] != v { return Some("value-kept"); } }
        }
        if let Some(p) = &cb.present { for j in model.len()..model.len() + 24 { if BitVec::is_set(p, j) { return Some("no-stray-bits"); } } }
        None
    }
    pub fn search(seed: u64) -> Option<String> {
        let lens = [0usize, 1, 2, 3, 7, 8, 9, 15, 16, 17];
        let maps: [Option<Vec<u8>>; 5] = [None, Some(vec![0, 0, 0]), Some(vec![0xff, 0xff, 0xff]), Some(vec![0b0101_0101, 0b1010_1010, 0x01]), Some(vec![(seed as u8) | 1, (seed >> 8) as u8, (seed >> 16) as u8])];
        let mut ops: Vec<Op> = Vec::new();
        for &n in &lens { ops.push(Op::Nulls(n)); }
        for &n in &lens { for m in &maps { ops.push(Op::Ints((0..n as i64).map(|x| x * 3 - 5 + (seed % 7) as i64).collect(), m.clone())); } }
        for &n0 in &lens {
            for a in &ops { for b in &ops {
                let std::result::Result::Ok(r) = std::panic::catch_unwind(|| {
                    let mut cb = ColumnBuffer::null(n0);
                    let mut model: Vec<Option<i64>> = vec![None; n0];
                    apply(&mut cb, &mut model, a);
                    if let Some(c) = check(&cb, &model) { return Some(c); }
                    apply(&mut cb, &mut model, b);
                    check(&cb, &model)
                }) else { return Some(format!("panic: ColumnBuffer::null({}) then {:?} then {:?}", n0, a, b)); };
                if let Some(c) = r { return Some(format!("{}: ColumnBuffer::null({}) then {:?} then {:?}", c, n0, a, b)); }
            } }
        }
        None
    }
}

#[cfg(kani)]
mod proofs {
    use super::bitvec::*;
    use super::column_buffer::*;

    const MAXN: usize = 2;

    fn null_at(cb: &ColumnBuffer, i: usize) -> bool {
        match &cb.present {
            None => matches!(cb.buffer, TypedBuffer::Empty),
            Some(p) => matches!(cb.buffer, TypedBuffer::Empty) || !BitVec::is_set(p, i),
        }
    }

    fn check<const M: usize>(cb: &ColumnBuffer, model: &[Option<i64>; M]) {
        assert!(cb.len() == M, "[row-count] number of rows equals the number supplied");
        let i: usize = kani::any();
        kani::assume(i < M);
        assert!(null_at(cb, i) == model[i].is_none(), "[null-exactly-where-missing] row is NULL exactly where no value was supplied");
        if let (TypedBuffer::Int(b), Some(v)) = (&cb.buffer, model[i]) {
            assert!(b.data[i] == v, "[value-kept] integer value equals what was supplied");
        }
        if let Some(p) = &cb.present {
            let j: usize = kani::any();
            kani::assume(j >= M && j < 32);
            assert!(!BitVec::is_set(p, j), "[no-stray-bits] no presence bit beyond the last row");
        }
    }

    // N values without null map, then one value with a null map (the path compaction takes when an earlier partition was dense)
    fn dense_then_mapped<const N: usize, const M: usize>() {
        let mut cb = ColumnBuffer::null(0);
        let vals: [i64; N] = kani::any();
        cb.push_ints(vals.iter().copied(), None);
        let v: i64 = kani::any();
        let map: [u8; 1] = kani::any();
        cb.push_ints([v], Some(&map[..]));
        let mut model = [None; M];
        for k in 0..N { model[k] = Some(vals[k]); }
        model[N] = if BitVec::is_set(&map[..], 0) { Some(v) } else { None };
        check::<M>(&cb, &model);
    }
    #[kani::proof]
    #[kani::unwind(11)]
    fn dense3_then_mapped() { dense_then_mapped::<3, 4>(); }
    #[kani::proof]
    #[kani::unwind(11)]
    fn dense8_then_mapped() { dense_then_mapped::<8, 9>(); }

    // N values, then a NULL (the bitmap is created at length N: byte boundary cases 7 / 8 / 9)
    fn dense_then_null<const N: usize, const M: usize>() {
        let mut cb = ColumnBuffer::null(0);
        let vals: [i64; N] = kani::any();
        cb.push_ints(vals.iter().copied(), None);
        cb.push_nulls(1);
        let mut model = [None; M];
        for k in 0..N { model[k] = Some(vals[k]); }
        check::<M>(&cb, &model);
    }
    #[kani::proof]
    #[kani::unwind(11)]
    fn dense7_then_null() { dense_then_null::<7, 8>(); }
    #[kani::proof]
    #[kani::unwind(11)]
    fn dense8_then_null() { dense_then_null::<8, 9>(); }
    #[kani::proof]
    #[kani::unwind(11)]
    fn dense9_then_null() { dense_then_null::<9, 10>(); }

    // a column first seen after N rows, then values with a null map
    fn late_column<const N: usize, const M: usize>() {
        let mut cb = ColumnBuffer::null(N);
        let vals: [i64; 2] = kani::any();
        let map: [u8; 1] = kani::any();
        let with_map: bool = kani::any();
        cb.push_ints(vals.iter().copied(), if with_map { Some(&map[..]) } else { None });
        let mut model = [None; M];
        for k in 0..2 { model[N + k] = if !with_map || BitVec::is_set(&map[..], k) { Some(vals[k]) } else { None }; }
        check::<M>(&cb, &model);
    }
    #[kani::proof]
    #[kani::unwind(11)]
    fn late_column_after_3() { late_column::<3, 5>(); }
    #[kani::proof]
    #[kani::unwind(11)]
    fn late_column_after_8() { late_column::<8, 10>(); }

    #[kani::proof]
    fn vx_canary() {
        let x: u8 = kani::any();
        assert!(x < 200, "[canary] must fail");
    }
} // mod proofs
