// U02b (Kani, BOUNDED fallback / witness search for U02): the real ColumnBuffer null-map code driven through short
// operation sequences against a row-level reference model.  Bounds: <= 3 operations, <= 9 rows per operation.
// Used (a) in the thorough tier, (b) when the Verus unit U02 loses an anchor or fails, to look for a concrete failing input.
#![allow(dead_code, unused_imports)]
pub mod bitvec { include!("bitvec.rs"); }
pub mod shims {
    // reduced stand-ins for types the null-map code only stores (hand-written, listed as trusted glue)
    #[derive(Default, Clone, Debug)]
    pub struct StringColBuffer { pub values: Vec<String> }
    impl StringColBuffer { pub fn push(&mut self, s: &str) { self.values.push(s.to_string()); } }
    #[derive(Debug, Clone, PartialEq)]
    pub enum RawVal { Int(i64), Float(ordered_float::OrderedFloat<f64>), Str(String), Null }
}
pub mod column_buffer {
    use super::bitvec::*;
    use super::shims::*;
    use std::cmp;
    include!("column_buffer.rs");
}

#[cfg(kani)]
mod proofs {
    use super::bitvec::*;
    use super::column_buffer::*;

    const MAXN: usize = 2;

    fn null_at(cb: &ColumnBuffer, i: usize) -> bool {
        match &cb.present {
            None => matches!(cb.buffer, TypedBuffer::Empty),
            Some(p) => matches!(cb.buffer, TypedBuffer::Empty) || !BitVec::is_set(p, i),
        }
    }

    // one symbolic operation of at most `maxn` rows; updates the buffer and the reference model (None = NULL)
    fn step(cb: &mut ColumnBuffer, model: &mut [Option<i64>; 16], len: &mut usize, maxn: usize) {
        let n: usize = kani::any();
        kani::assume(n <= maxn);
        if kani::any() {
            cb.push_nulls(n);
            for _ in 0..n { model[*len] = None; *len += 1; }
        } else {
            let vals: [i64; MAXN] = kani::any();
            let with_map: bool = kani::any();
            let map: [u8; 2] = kani::any();
            cb.push_ints(vals[..n].iter().copied(), if with_map { Some(&map[..]) } else { None });
            for k in 0..n {
                let present = !with_map || BitVec::is_set(&map[..], k);
                model[*len] = if present { Some(vals[k]) } else { None };
                *len += 1;
            }
        }
    }

    fn check(cb: &ColumnBuffer, model: &[Option<i64>; 16], len: usize) {
        assert!(cb.len() == len, "[row-count] number of rows equals the number supplied");
        let i: usize = kani::any();
        kani::assume(i < len);
        assert!(null_at(cb, i) == model[i].is_none(), "[null-exactly-where-missing] row is NULL exactly where no value was supplied");
        if let (TypedBuffer::Int(b), Some(v)) = (&cb.buffer, model[i]) {
            assert!(b.data[i] == v, "[value-kept] integer value equals what was supplied");
        }
        if let Some(p) = &cb.present {
            let j: usize = kani::any();
            kani::assume(j >= len && j < 64);
            assert!(!BitVec::is_set(p, j), "[no-stray-bits] no presence bit beyond the last row");
        }
    }

    // first operation of exactly N rows (N fixed per harness: lengths around the byte boundary of the bitmap),
    // then a second operation of at most 2 rows
    fn scenario<const N: usize>() {
        let mut cb = ColumnBuffer::null(0);
        let mut model = [None; 16];
        let mut len = 0;
        if kani::any() {
            cb.push_nulls(N);
            len = N;
        } else {
            let vals: [i64; N] = kani::any();
            let with_map: bool = kani::any();
            let map: [u8; 2] = kani::any();
            cb.push_ints(vals.iter().copied(), if with_map { Some(&map[..]) } else { None });
            for k in 0..N {
                let present = !with_map || BitVec::is_set(&map[..], k);
                model[k] = if present { Some(vals[k]) } else { None };
            }
            len = N;
        }
        step(&mut cb, &mut model, &mut len, 2);
        check(&cb, &model, len);
    }
    #[kani::proof]
    #[kani::unwind(12)]
    fn first_op_3_rows() { scenario::<3>(); }
    #[kani::proof]
    #[kani::unwind(12)]
    fn first_op_8_rows() { scenario::<8>(); }
    #[kani::proof]
    #[kani::unwind(12)]
    fn first_op_9_rows() { scenario::<9>(); }

    // a column first seen after n0 rows (all NULL so far), then one operation
    #[kani::proof]
    #[kani::unwind(12)]
    fn null_prefix_then_op() {
        let n0: usize = if kani::any() { 3 } else { 8 };
        let mut cb = ColumnBuffer::null(n0);
        let mut model = [None; 16];
        let mut len = n0;
        step(&mut cb, &mut model, &mut len, 2);
        check(&cb, &model, len);
    }

    #[kani::proof]
    fn vx_canary() {
        let x: u8 = kani::any();
        assert!(x < 200, "[canary] must fail");
    }
} // mod proofs
