// U02b (Kani, BOUNDED fallback / witness search for U02): the real ColumnBuffer null-map code driven through short
// operation sequences against a row-level reference model.  Bounds: <= 3 operations, <= 9 rows per operation.
// Used (a) in the thorough tier, (b) when the Verus unit U02 loses an anchor or fails, to look for a concrete failing input.
#![allow(dead_code, unused_imports)]
pub mod bitvec { include!("bitvec.rs"); }
pub mod shims {
    // reduced stand-ins for types the null-map code only stores (hand-written, listed as trusted glue)
    #[derive(Default, Clone, Debug)]
    pub struct StringColBuffer { pub values: Vec<String> }
    impl StringColBuffer { pub fn push(&mut self, s: &str) { self.values.push(s.to_string()); } }
    #[derive(Debug, Clone, PartialEq)]
    pub enum RawVal { Int(i64), Float(ordered_float::OrderedFloat<f64>), Str(String), Null }
}
pub mod column_buffer {
    use super::bitvec::*;
    use super::shims::*;
    use std::cmp;
    include!("column_buffer.rs");
}

#[cfg(kani)]
mod proofs {
    use super::bitvec::*;
    use super::column_buffer::*;

    const MAXN: usize = 9;

    fn null_at(cb: &ColumnBuffer, i: usize) -> bool {
        match &cb.present {
            None => matches!(cb.buffer, TypedBuffer::Empty),
            Some(p) => matches!(cb.buffer, TypedBuffer::Empty) || !BitVec::is_set(p, i),
        }
    }

    // one symbolic operation; returns nothing, updates the buffer and the reference model (None = NULL)
    fn step(cb: &mut ColumnBuffer, model: &mut Vec<Option<i64>>) {
        let n: usize = kani::any();
        kani::assume(n <= MAXN);
        if kani::any() {
            cb.push_nulls(n);
            for _ in 0..n { model.push(None); }
        } else {
            let vals: [i64; MAXN] = kani::any();
            let with_map: bool = kani::any();
            let map: [u8; 2] = kani::any();
            cb.push_ints(vals[..n].iter().copied(), if with_map { Some(&map[..]) } else { None });
            for k in 0..n {
                let present = !with_map || BitVec::is_set(&map[..], k);
                model.push(if present { Some(vals[k]) } else { None });
            }
        }
    }

    fn check(cb: &ColumnBuffer, model: &Vec<Option<i64>>) {
        assert!(cb.len() == model.len(), "[row-count] number of rows equals the number supplied");
        for i in 0..model.len() {
            assert!(null_at(cb, i) == model[i].is_none(), "[null-exactly-where-missing] row is NULL exactly where no value was supplied");
            if let (TypedBuffer::Int(b), Some(v)) = (&cb.buffer, model[i]) {
                assert!(b.data[i] == v, "[value-kept] integer value equals what was supplied");
            }
        }
        if let Some(p) = &cb.present {
            let i: usize = kani::any();
            kani::assume(i >= cb.len() && i < 64);
            assert!(!BitVec::is_set(p, i), "[no-stray-bits] no presence bit beyond the last row");
        }
    }

    #[kani::proof]
    #[kani::unwind(11)]
    fn two_ops_from_null_prefix() {
        let n0: usize = kani::any();
        kani::assume(n0 <= MAXN);
        let mut cb = ColumnBuffer::null(n0);
        let mut model: Vec<Option<i64>> = (0..n0).map(|_| None).collect();
        step(&mut cb, &mut model);
        step(&mut cb, &mut model);
        check(&cb, &model);
    }

    #[kani::proof]
    #[kani::unwind(11)]
    fn three_ops() {
        let mut cb = ColumnBuffer::null(0);
        let mut model: Vec<Option<i64>> = Vec::new();
        step(&mut cb, &mut model);
        step(&mut cb, &mut model);
        step(&mut cb, &mut model);
        check(&cb, &model);
    }

    #[kani::proof]
    fn vx_canary() {
        let x: u8 = kani::any();
        assert!(x < 200, "[canary] must fail");
    }
} // mod proofs
