// native enumeration driver; prints "WITNESS <text>" and exits 1 when a failing input exists
fn main() {
    let seed: u64 = std::env::args().nth(1).and_then(|s| s.parse().ok()).unwrap_or(0);
    let thorough = std::env::var("VERIF_TIER").map(|t| t == "thorough").unwrap_or(false);
    let max_cols = if thorough { 6 } else { 4 };
    match vx_u22n::search(seed, max_cols) {
        Some(w) => { println!("WITNESS {}", w); std::process::exit(1); }
        None => println!("NO-WITNESS (every set of <= {} column names from a pool of {} names, all groupings)", max_cols, vx_u22n::POOL.len()),
    }
}
