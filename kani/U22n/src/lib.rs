// U22n (native, BOUNDED exhaustive enumeration - not a proof): column -> file routing (C15, C07).  Real code, compiled
// natively because BTreeMap / String / sort_by are beyond CBMC (U22k) and Verus: inner_locustdb::subpartition (how the
// columns of a flushed or compacted partition are split into files and which name each file is keyed by), the construction of
// the lookup map at its two sites (flush_table_buffer and Storage::prepare_compact, statement slices) and the three reader
// functions PartitionMetadata::subpartition_key / subpartition_has_been_loaded / mark_subpartition_as_loaded.
// The obligation is the property's own sentence: every column is found in the file it was written to, under any name.
#![allow(dead_code, unused_imports)]
#![feature(btree_cursors)]
use std::collections::BTreeMap;
use std::mem;
use std::sync::atomic::AtomicBool;
use std::sync::Arc;
// shims (R10): a column is its name and its size; only the size limit of Options is read
pub struct Column { pub nm: String, pub size: usize }
impl Column { pub fn name(&self) -> &str { &self.nm } pub fn heap_size_of_children(&self) -> usize { self.size } }
pub struct Options { pub max_partition_size_bytes: u64 }
include!("routing.rs");

pub const POOL: [&str; 16] = ["a", "b", "B", "c", "C", "ab", "aB", "a_b", "Z", "z", "A", "all", "\u{e9}", "a b", "0", "_"];

fn check(names: &[&str], sizes: &[usize], limit: u64) -> Option<String> {
    let describe = || format!("columns {:?} with sizes {:?}, max_partition_size_bytes {}", names, sizes, limit);
    let cols: Vec<Arc<Column>> = names.iter().zip(sizes.iter()).map(|(n, s)| Arc::new(Column { nm: n.to_string(), size: *s })).collect();
    let (metadata, files) = subpartition(&Options { max_partition_size_bytes: limit }, cols);
    if metadata.len() != files.len() { return Some(format!("one-entry-per-file: {} metadata entries for {} files; {}", metadata.len(), files.len(), describe())); }
    let mut seen: Vec<&str> = Vec::new();
    for f in files.iter() { for c in f.iter() { seen.push(c.name()); } }
    let mut want: Vec<&str> = names.to_vec();
    want.sort(); seen.sort();
    if want != seen { return Some(format!("every-column-in-one-file: the files hold {:?}; {}", seen, describe())); }
    for i in 0..metadata.len() { for j in 0..i { if metadata[i].subpartition_key == metadata[j].subpartition_key {
        return Some(format!("file-keys-distinct: two files share the key {:?}; {}", metadata[i].subpartition_key, describe())); } } }
    let keys: Vec<String> = metadata.iter().map(|m| m.subpartition_key.clone()).collect();
    for (site, lookup) in [("flush_table_buffer", build_lookup_flush(&metadata)), ("prepare_compact", build_lookup_compact(&metadata))] {
        let pm = PartitionMetadata { subpartitions: metadata.clone(), subpartitions_by_last_column: lookup };
        for (k, f) in files.iter().enumerate() {
            for c in f.iter() {
                let got = pm.subpartition_key(c.name());
                if got.as_deref() != Some(keys[k].as_str()) {
                    return Some(format!("column-found-in-its-file: column {:?} was written to the file keyed {:?} but is looked up in {:?} (lookup built as in {}); {}", c.name(), keys[k], got, site, describe()));
                }
                if !pm.subpartition_has_been_loaded(c.name()) {
                    return Some(format!("fresh-file-is-resident: column {:?} of a freshly written partition is reported as not loaded (lookup built as in {}); {}", c.name(), site, describe()));
                }
            }
        }
    }
    // a partition read back from the catalogue starts with every file unloaded; marking one column's file as loaded
    // marks exactly the file that holds the column
    for (k, f) in files.iter().enumerate() {
        for c in f.iter() {
            let fresh: Vec<SubpartitionMetadata> = metadata.iter().map(|m| SubpartitionMetadata { size_bytes: m.size_bytes, subpartition_key: m.subpartition_key.clone(), last_column: m.last_column.clone(), loaded: Arc::new(AtomicBool::new(false)) }).collect();
            let pm = PartitionMetadata { subpartitions: fresh, subpartitions_by_last_column: build_lookup_flush(&metadata) };
            pm.mark_subpartition_as_loaded(c.name());
            for (k2, f2) in files.iter().enumerate() {
                for c2 in f2.iter() {
                    if pm.subpartition_has_been_loaded(c2.name()) != (k2 == k) {
                        return Some(format!("loaded-flag-of-its-file: after loading the file of column {:?}, column {:?} is reported as {}; {}", c.name(), c2.name(), if k2 == k { "not loaded" } else { "loaded" }, describe()));
                    }
                }
            }
        }
    }
    None
}

pub fn search(_seed: u64, max_cols: usize) -> Option<String> {
    // every subset of 1..=max_cols names of the pool, in pool order and reversed, with unit sizes under every size limit
    // that gives a different grouping, and with sizes 1, 2, 1, 2, .. under the limit 3
    let n = POOL.len();
    let mut idx: Vec<usize> = Vec::new();
    fn rec(start: usize, n: usize, max_cols: usize, idx: &mut Vec<usize>, out: &mut Option<String>) {
        if out.is_some() { return; }
        if !idx.is_empty() {
            let mut names: Vec<&str> = idx.iter().map(|&i| POOL[i]).collect();
            for _ in 0..2 {
                let ones = vec![1usize; names.len()];
                for limit in 1..=(names.len() as u64) { if let Some(w) = check(&names, &ones, limit) { *out = Some(w); return; } }
                let alt: Vec<usize> = (0..names.len()).map(|i| 1 + i % 2).collect();
                if let Some(w) = check(&names, &alt, 3) { *out = Some(w); return; }
                names.reverse();
            }
        }
        if idx.len() == max_cols { return; }
        for i in start..n { idx.push(i); rec(i + 1, n, max_cols, idx, out); idx.pop(); }
    }
    let mut out = None;
    rec(0, n, max_cols, &mut idx, &mut out);
    out
}
