// U09 (Kani, complete): aggregation kernels - SumI64 / Count / MaxI64 / MinI64 accumulate & combine,
// and the cross-partition Combinable<i64>::combine.  All items are extracted from /repo on every run.
#![allow(dead_code, unused_imports, unused_macros)]
#[macro_use]
pub mod shim {
    include!("../common_shim.rs");
}
pub use shim::QueryError;
pub mod aggregator {
    include!("aggregator.rs");
}
pub mod aggregate {
    include!("aggregate.rs");
}
pub mod merge_aggregate {
    use super::aggregator::Aggregator;
    use super::shim::QueryError;
    include!("merge_aggregate.rs");
}

#[cfg(kani)]
mod proofs {
    use super::aggregate::{Aggregator as Agg, CheckedAggregator, Count, MaxI64, MinI64, SumI64};
    use super::aggregator::Aggregator;
    use super::merge_aggregate::*;
    use super::shim::QueryError;

    macro_rules! sum_acc {
        ($name:ident, $t:ty) => {
            #[kani::proof]
            fn $name() {
                let acc: i64 = kani::any();
                let v: $t = kani::any();
                let (r, flag) = <SumI64 as CheckedAggregator<$t, i64>>::accumulate_checked(acc, v);
                let e = acc as i128 + (v as i64) as i128;
                let fits = e >= i64::MIN as i128 && e <= i64::MAX as i128;
                kani::cover!(!flag, "vacuity: no-flag reachable");
                kani::cover!(flag, "vacuity: flag reachable");
                assert!(flag || r as i128 == e, "[exact-when-unflagged] unflagged partial sum is the exact sum");
                assert!(flag == !fits, "[flag-iff-overflow] flag raised exactly when the exact sum does not fit i64");
            }
        };
    }
    sum_acc!(sum_accumulate_checked_u8, u8);
    sum_acc!(sum_accumulate_checked_u16, u16);
    sum_acc!(sum_accumulate_checked_u32, u32);
    sum_acc!(sum_accumulate_checked_i64, i64);

    #[kani::proof]
    fn sum_combine_checked() {
        let a: i64 = kani::any();
        let b: i64 = kani::any();
        let (r, flag) = <SumI64 as CheckedAggregator<i64, i64>>::combine_checked(a, b);
        let e = a as i128 + b as i128;
        let fits = e >= i64::MIN as i128 && e <= i64::MAX as i128;
        kani::cover!(!flag, "vacuity");
        assert!(flag || r as i128 == e, "[exact-when-unflagged] unflagged combined sum is exact");
        assert!(flag == !fits, "[flag-iff-overflow] flag raised exactly when the exact sum does not fit i64");
    }

    #[kani::proof]
    fn sum_unit_is_zero() {
        assert!(<SumI64 as Agg<i64, i64>>::unit() == 0, "[unit] SUM starts from 0");
        assert!(<Count as Agg<i64, u32>>::unit() == 0, "[unit] COUNT starts from 0");
        assert!(<MaxI64 as Agg<i64, i64>>::unit() == i64::MIN, "[unit] MAX starts from the least value");
        assert!(<MinI64 as Agg<i64, i64>>::unit() == i64::MAX, "[unit] MIN starts from the greatest value");
    }

    #[kani::proof]
    fn count_accumulate() {
        let acc: u32 = kani::any();
        // A-count-range: fewer than 2^32 - 1 rows per group and partition
        kani::assume(acc < u32::MAX);
        let v: i64 = kani::any();
        let r = <Count as Agg<i64, u32>>::accumulate(acc, v);
        assert!(r as u64 == acc as u64 + 1, "[count-plus-one] COUNT adds exactly one per row, whatever the value");
    }

    #[kani::proof]
    fn max_min_lattice() {
        let a: i64 = kani::any();
        let b: i64 = kani::any();
        let m = <MaxI64 as Agg<i64, i64>>::accumulate(a, b);
        assert!(m >= a && m >= b && (m == a || m == b), "[max] MAX accumulate is the larger operand");
        let m = <MaxI64 as Agg<i64, i64>>::combine(a, b);
        assert!(m >= a && m >= b && (m == a || m == b), "[max-combine] MAX combine is the larger operand");
        let m = <MinI64 as Agg<i64, i64>>::accumulate(a, b);
        assert!(m <= a && m <= b && (m == a || m == b), "[min] MIN accumulate is the smaller operand");
        let m = <MinI64 as Agg<i64, i64>>::combine(a, b);
        assert!(m <= a && m <= b && (m == a || m == b), "[min-combine] MIN combine is the smaller operand");
        let c: u32 = kani::any();
        let r = <MaxI64 as Agg<u32, i64>>::accumulate(a, c);
        assert!(r >= a && r >= c as i64 && (r == a || r == c as i64), "[max-u32] MAX over a narrow encoded operand");
    }

    fn any_aggregator() -> Aggregator {
        let k: u8 = kani::any();
        kani::assume(k < 7);
        match k {
            0 => Aggregator::SumI64,
            1 => Aggregator::SumF64,
            2 => Aggregator::Count,
            3 => Aggregator::MaxI64,
            4 => Aggregator::MaxF64,
            5 => Aggregator::MinI64,
            _ => Aggregator::MinF64,
        }
    }

    // cross-partition combine: I64_NULL = "this side has no value for the group"
    #[kani::proof]
    fn combine_i64() {
        let op = any_aggregator();
        let a: i64 = kani::any();
        let b: i64 = kani::any();
        if let Aggregator::Count = op {
            // A-count-range: counts are non-negative row counts far below 2^62
            kani::assume((a >= 0 && a < (1i64 << 62)) || a == I64_NULL);
            kani::assume((b >= 0 && b < (1i64 << 62)) || b == I64_NULL);
        }
        let r = <i64 as Combinable<i64>>::combine(op, a, b);
        kani::cover!(r.is_ok(), "vacuity: ok reachable");
        kani::cover!(matches!(r, Err(QueryError::Overflow)), "vacuity: overflow reachable");
        match op {
            Aggregator::SumI64 | Aggregator::Count | Aggregator::MaxI64 | Aggregator::MinI64 => {
                if a == I64_NULL {
                    assert!(matches!(r, Ok(x) if x == b), "[null-left] a side without value contributes nothing");
                } else if b == I64_NULL {
                    assert!(matches!(r, Ok(x) if x == a), "[null-right] a side without value contributes nothing");
                } else {
                    match op {
                        Aggregator::SumI64 | Aggregator::Count => {
                            let e = a as i128 + b as i128;
                            let fits = e >= i64::MIN as i128 && e <= i64::MAX as i128;
                            if fits {
                                assert!(matches!(r, Ok(x) if x as i128 == e), "[sum-exact] combined sum is the exact sum");
                            } else {
                                assert!(matches!(r, Err(QueryError::Overflow)), "[sum-overflow] a sum that does not fit fails with Overflow");
                            }
                        }
                        Aggregator::MaxI64 => assert!(matches!(r, Ok(x) if x >= a && x >= b && (x == a || x == b)), "[max-combine] larger side"),
                        _ => assert!(matches!(r, Ok(x) if x <= a && x <= b && (x == a || x == b)), "[min-combine] smaller side"),
                    }
                }
            }
            _ => assert!(matches!(r, Err(QueryError::FatalError)), "[unsupported] float aggregators on i64 are rejected, not computed"),
        }
    }

    #[kani::proof]
    fn vx_canary() {
        let x: u8 = kani::any();
        assert!(x < 200, "[canary] must fail");
    }
} // mod proofs
