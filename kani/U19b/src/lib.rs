// U19b (Kani, BOUNDED fallback for the NullVecLike slice of U19): how many rows the NULL stand-in column gets under a
// nullable filter.  bitvec.rs is compiled whole (#[path]); the arm of NullVecLike::execute is an expression slice.
#![allow(dead_code, unused_imports, unused_variables)]
#[path = "@REPO@/src/bitvec.rs"]
pub mod bitvec;
use crate::bitvec::BitVec;
pub struct In;
impl In { pub fn nullable_u8(&self) -> () { } }
pub struct Op { pub input: In }
pub struct Scratch<'a> { pub data: &'a [u8], pub present: &'a [u8] }
impl<'a> Scratch<'a> { pub fn get_nullable(&self, _: ()) -> (&'a [u8], &'a [u8]) { (self.data, self.present) } }
include!("count.rs");

#[cfg(kani)]
mod proofs {
    use super::*;
    fn run<const N: usize, const B: usize>() {
        let data: [u8; N] = kani::any();
        let present: [u8; B] = kani::any();
        let n: usize = kani::any();
        kani::assume(n <= N);
        let got = non_null_element_count(&Op { input: In }, &Scratch { data: &data[..n], present: &present });
        let mut want = 0;
        for i in 0..N { if i < n && data[i] != 0 && (present[i >> 3] >> (i & 7)) & 1 == 1 { want += 1; } }
        kani::cover!(got > 0 && got < n, "vacuity: some rows counted, some not");
        assert!(got == want, "[count-true-and-present] the stand-in column has one row per filter row that is non-zero and not NULL");
    }
    #[kani::proof]
    #[kani::unwind(12)]
    fn counts_true_and_present_rows() { run::<10, 2>(); } // spans the bitmap byte boundary
    #[kani::proof]
    #[kani::unwind(20)]
    fn counts_true_and_present_rows_18() { run::<18, 3>(); } // thorough tier: two byte boundaries
    #[kani::proof]
    fn vx_canary() {
        let x: u8 = kani::any();
        assert!(x < 200, "[canary] must fail");
    }
} // mod proofs
