// U30 (Kani, complete): partition file, codec description - every CodecOp written by PartitionSegment::serialize is read
// back as the same CodecOp by PartitionSegment::deserialize (C14: "the (de)serialisers enumerate every codec op by hand in
// two places that must agree").  Real code: enum CodecOp, enum EncodingType, deserialize_type, encoding_type_to_capnp
// (items) and the two `match` tables (expression slices).  The Cap'n Proto generated builder / reader types are a
// stand-in with the documented semantics of a union (A-capnp, below).
#![allow(dead_code, unused_imports, unused_variables, unused_mut, non_camel_case_types)]

// A-capnp: a union holds the member that was set last; `set_x(v)` stores v; `init_x()` replaces the union content by a
// zero-initialised struct x (enumerant 0, 0, false) and returns a builder for it; `reborrow()` aliases the same storage;
// `which()` reports the stored member and the getters return the stored fields.
pub mod partition_segment_capnp {
    #[derive(Clone, Copy, PartialEq, Debug)]
    pub enum EncodingType { U8, U16, U32, U64, I64, Null, F64, Bitvec } // enumerants 0..7 of schemas/partition_segment.capnp
    #[derive(Debug)] pub struct NotInSchema;
    #[derive(Debug)] pub struct Error;
    pub mod codec_op {
        use super::*;
        #[derive(Clone, Copy, PartialEq, Debug)]
        pub enum Slot {
            Unset, Nullable, Add { t: EncodingType, amount: i64 }, Delta(EncodingType), ToI64(EncodingType), PushDataSection(u64), DictLookup(EncodingType),
            Lz4 { t: EncodingType, len_decoded: u64 }, Pco { t: EncodingType, len_decoded: u64, is_fp32: bool }, UnpackStrings,
            UnhexpackStrings { uppercase: bool, total_bytes: u64 },
        }
        pub struct Builder<'a> { pub slot: &'a mut Slot }
        pub struct AddB<'a> { slot: &'a mut Slot }
        pub struct Lz4B<'a> { slot: &'a mut Slot }
        pub struct PcoB<'a> { slot: &'a mut Slot }
        pub struct UhpsB<'a> { slot: &'a mut Slot }
        impl<'a> Builder<'a> {
            pub fn reborrow(&mut self) -> Builder<'_> { Builder { slot: &mut *self.slot } }
            pub fn set_nullable(&mut self, _: ()) { *self.slot = Slot::Nullable; }
            pub fn set_delta(&mut self, t: EncodingType) { *self.slot = Slot::Delta(t); }
            pub fn set_to_i64(&mut self, t: EncodingType) { *self.slot = Slot::ToI64(t); }
            pub fn set_push_data_section(&mut self, v: u64) { *self.slot = Slot::PushDataSection(v); }
            pub fn set_dict_lookup(&mut self, t: EncodingType) { *self.slot = Slot::DictLookup(t); }
            pub fn set_unpack_strings(&mut self, _: ()) { *self.slot = Slot::UnpackStrings; }
            pub fn init_add(self) -> AddB<'a> { *self.slot = Slot::Add { t: EncodingType::U8, amount: 0 }; AddB { slot: self.slot } }
            pub fn init_lz4(self) -> Lz4B<'a> { *self.slot = Slot::Lz4 { t: EncodingType::U8, len_decoded: 0 }; Lz4B { slot: self.slot } }
            pub fn init_pco(self) -> PcoB<'a> { *self.slot = Slot::Pco { t: EncodingType::U8, len_decoded: 0, is_fp32: false }; PcoB { slot: self.slot } }
            pub fn init_unhexpack_strings(self) -> UhpsB<'a> { *self.slot = Slot::UnhexpackStrings { uppercase: false, total_bytes: 0 }; UhpsB { slot: self.slot } }
        }
        impl<'a> AddB<'a> {
            pub fn set_type(&mut self, v: EncodingType) { if let Slot::Add { t, .. } = self.slot { *t = v; } }
            pub fn set_amount(&mut self, v: i64) { if let Slot::Add { amount, .. } = self.slot { *amount = v; } }
        }
        impl<'a> Lz4B<'a> {
            pub fn set_type(&mut self, v: EncodingType) { if let Slot::Lz4 { t, .. } = self.slot { *t = v; } }
            pub fn set_len_decoded(&mut self, v: u64) { if let Slot::Lz4 { len_decoded, .. } = self.slot { *len_decoded = v; } }
        }
        impl<'a> PcoB<'a> {
            pub fn set_type(&mut self, v: EncodingType) { if let Slot::Pco { t, .. } = self.slot { *t = v; } }
            pub fn set_len_decoded(&mut self, v: u64) { if let Slot::Pco { len_decoded, .. } = self.slot { *len_decoded = v; } }
            pub fn set_is_fp32(&mut self, v: bool) { if let Slot::Pco { is_fp32, .. } = self.slot { *is_fp32 = v; } }
        }
        impl<'a> UhpsB<'a> {
            pub fn set_uppercase(&mut self, v: bool) { if let Slot::UnhexpackStrings { uppercase, .. } = self.slot { *uppercase = v; } }
            pub fn set_total_bytes(&mut self, v: u64) { if let Slot::UnhexpackStrings { total_bytes, .. } = self.slot { *total_bytes = v; } }
        }
        #[derive(Clone, Copy)] pub struct Reader<'a> { pub slot: &'a Slot }
        #[derive(Clone, Copy)] pub struct AddR { t: EncodingType, amount: i64 }
        #[derive(Clone, Copy)] pub struct Lz4R { t: EncodingType, len_decoded: u64 }
        #[derive(Clone, Copy)] pub struct PcoR { t: EncodingType, len_decoded: u64, is_fp32: bool }
        #[derive(Clone, Copy)] pub struct UhpsR { uppercase: bool, total_bytes: u64 }
        impl AddR { pub fn get_type(&self) -> Result<EncodingType, NotInSchema> { Ok(self.t) } pub fn get_amount(&self) -> i64 { self.amount } }
        impl Lz4R { pub fn get_type(&self) -> Result<EncodingType, NotInSchema> { Ok(self.t) } pub fn get_len_decoded(&self) -> u64 { self.len_decoded } }
        impl PcoR { pub fn get_type(&self) -> Result<EncodingType, NotInSchema> { Ok(self.t) } pub fn get_len_decoded(&self) -> u64 { self.len_decoded } pub fn get_is_fp32(&self) -> bool { self.is_fp32 } }
        impl UhpsR { pub fn get_uppercase(&self) -> bool { self.uppercase } pub fn get_total_bytes(&self) -> u64 { self.total_bytes } }
        pub enum Which {
            Nullable(()), Add(Result<AddR, Error>), Delta(Result<EncodingType, NotInSchema>), ToI64(Result<EncodingType, NotInSchema>), PushDataSection(u64),
            DictLookup(Result<EncodingType, NotInSchema>), Lz4(Result<Lz4R, Error>), Pco(Result<PcoR, Error>), UnpackStrings(()), UnhexpackStrings(Result<UhpsR, Error>),
        }
        impl<'a> Reader<'a> {
            pub fn which(&self) -> Result<Which, NotInSchema> {
                Ok(match *self.slot {
                    Slot::Unset => Which::Add(Ok(AddR { t: EncodingType::U8, amount: 0 })), // a never-written union reads as member 0 (add), zeroed
                    Slot::Nullable => Which::Nullable(()),
                    Slot::Add { t, amount } => Which::Add(Ok(AddR { t, amount })),
                    Slot::Delta(t) => Which::Delta(Ok(t)),
                    Slot::ToI64(t) => Which::ToI64(Ok(t)),
                    Slot::PushDataSection(v) => Which::PushDataSection(v),
                    Slot::DictLookup(t) => Which::DictLookup(Ok(t)),
                    Slot::Lz4 { t, len_decoded } => Which::Lz4(Ok(Lz4R { t, len_decoded })),
                    Slot::Pco { t, len_decoded, is_fp32 } => Which::Pco(Ok(PcoR { t, len_decoded, is_fp32 })),
                    Slot::UnpackStrings => Which::UnpackStrings(()),
                    Slot::UnhexpackStrings { uppercase, total_bytes } => Which::UnhexpackStrings(Ok(UhpsR { uppercase, total_bytes })),
                })
            }
        }
    }
}
include!("items.rs");

#[cfg(kani)]
mod proofs {
    use super::*;
    use partition_segment_capnp::codec_op::{Builder, Reader, Slot};
    // the eight element types a stored column can have (encoding_type_to_capnp panics on the others: C14 "every column
    // encoding" means every encoding a Column can carry - DataSection::encoding_type() yields only these)
    fn any_stored_type() -> EncodingType {
        let k: u8 = kani::any();
        kani::assume(k < 8);
        match k { 0 => EncodingType::U8, 1 => EncodingType::U16, 2 => EncodingType::U32, 3 => EncodingType::U64, 4 => EncodingType::I64, 5 => EncodingType::Null, 6 => EncodingType::F64, _ => EncodingType::Bitvec }
    }
    fn any_op() -> CodecOp {
        let k: u8 = kani::any();
        kani::assume(k < 10);
        match k {
            0 => CodecOp::Nullable, 1 => CodecOp::Add(any_stored_type(), kani::any()), 2 => CodecOp::Delta(any_stored_type()), 3 => CodecOp::ToI64(any_stored_type()),
            4 => CodecOp::PushDataSection(kani::any()), 5 => CodecOp::DictLookup(any_stored_type()), 6 => CodecOp::LZ4(any_stored_type(), kani::any()),
            7 => CodecOp::Pco(any_stored_type(), kani::any(), kani::any()), 8 => CodecOp::UnpackStrings, _ => CodecOp::UnhexpackStrings(kani::any(), kani::any()),
        }
    }
    #[kani::proof]
    fn codec_op_roundtrip() {
        let op = any_op();
        let mut slot = Slot::Unset;
        ser_op(op, Builder { slot: &mut slot });
        let back = de_op(Reader { slot: &slot });
        assert!(back == op, "[codec-op-roundtrip] a codec op read back from a partition file is the op that was written (variant and every field)");
    }
    #[kani::proof]
    fn encoding_type_roundtrip() {
        let t = any_stored_type();
        assert!(deserialize_type(encoding_type_to_capnp(t)) == t, "[type-roundtrip] an element type read back is the type that was written");
    }
    #[kani::proof]
    fn vx_canary() {
        let x: u8 = kani::any();
        assert!(x < 200, "[canary] must fail");
    }
} // mod proofs
