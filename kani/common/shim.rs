// vx shim for Kani harness crates (hand-written, listed in evidence as trusted glue):
// error type and logging / error-construction macros of the main crate, without formatting machinery
// (format! on error paths dominates CBMC cost and is irrelevant to the contracts).
#[derive(Debug)]
pub enum QueryError {
    ParseError(String),
    FatalError,
    NotImplemented(String),
    TypeError(String),
    Overflow,
}
#[allow(unused_macros)]
macro_rules! fatal { ($($t:tt)*) => { QueryError::FatalError }; }
#[allow(unused_macros)]
macro_rules! error { ($($t:tt)*) => {}; }
#[allow(unused_macros)]
macro_rules! warn { ($($t:tt)*) => {}; }
#[allow(unused_macros)]
macro_rules! debug { ($($t:tt)*) => {}; }
#[allow(unused_macros)]
macro_rules! trace { ($($t:tt)*) => {}; }
#[allow(unused_macros)]
macro_rules! info { ($($t:tt)*) => {}; }
#[allow(unused_macros)]
macro_rules! bail { ($kind:expr, $($t:tt)*) => { return Err(QueryError::from_kind(stringify!($kind))) }; }
impl QueryError {
    #[allow(dead_code)]
    pub fn from_kind(k: &str) -> QueryError {
        if k.ends_with("TypeError") { QueryError::TypeError(String::new()) } else if k.ends_with("NotImplemented") { QueryError::NotImplemented(String::new()) }
        else if k.ends_with("ParseError") { QueryError::ParseError(String::new()) } else { QueryError::FatalError }
    }
}
