// U40 (Kani, BOUNDED in bitmap length, complete in contents): CombineNullMaps::execute - the presence bitmap of a binary
// operator's result is the AND of its operands' bitmaps (the node semantics that U25k assumes).
#![allow(dead_code)]
include!("cnm.rs");

#[cfg(kani)]
mod proofs {
    use super::*;
    const B: usize = 3; // bytes = 24 rows
    #[kani::proof]
    #[kani::unwind(5)]
    fn result_present_iff_both_present() {
        let (l, r, o): ([u8; B], [u8; B], [u8; B]) = (kani::any(), kani::any(), kani::any());
        let (nl, nr, no): (usize, usize, usize) = (kani::any(), kani::any(), kani::any());
        kani::assume(nl <= B && nr <= B && no <= B);
        let mut out = o[..no].to_vec();
        combine_null_maps(&l[..nl], &r[..nr], &mut out);
        assert!(out.len() == no, "[length-kept] the output bitmap keeps its length");
        let m = nl.min(nr).min(no);
        for k in 0..B {
            if k < m { assert!(out[k] == l[k] & r[k], "[and-of-bitmaps] a row of the result is present iff it is present in both operands"); }
            else if k < no { assert!(out[k] == o[k], "[rest-untouched] bytes beyond the shorter operand are left as initialised (all NULL)"); }
        }
    }
    #[kani::proof]
    fn vx_canary() {
        let x: u8 = kani::any();
        assert!(x < 200, "[canary] must fail");
    }
} // mod proofs
