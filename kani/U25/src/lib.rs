// U25 (Kani): planner.rs propagate_nullability / combine_nulls / combine_nulls2 - the rewrite that makes arithmetic,
// boolean and comparison operators NULL-aware (C03: "a comparison involving NULL is not true"; C06: arithmetic on NULL).
// Real code: buffer.rs is compiled whole (#[path]); EncodingType, QueryPlan (derive / field attributes of the
// ASTBuilder proc-macro stripped), Rewrite, BufferProvider and the three planner fns are extracted items.
#![allow(dead_code, unused_imports, unused_variables, unused_macros, non_camel_case_types)]
pub mod shim { include!("../common_shim.rs"); }
pub use shim::QueryError;
macro_rules! ensure { ($c:expr, $($t:tt)*) => { if !$c { return Err(QueryError::FatalError); } }; }
// inert stand-ins for types that occur only as phantom type parameters of BufferRef<T>
pub mod engine { pub mod data_types {
    pub use crate::tys::*;
    pub type of64 = ordered_float::OrderedFloat<f64>;
    #[derive(Clone, Copy, Debug, PartialEq, Eq, Hash)] pub struct MergeOp;
    #[derive(Clone, Copy, Debug, PartialEq, Eq, Hash)] pub struct Premerge;
    #[derive(Clone, Copy, Debug, PartialEq, Eq, Hash)] pub struct ValRows<'a>(pub std::marker::PhantomData<&'a ()>);
} }
pub mod ingest { pub mod raw_val { #[derive(Clone, Copy, Debug, PartialEq, Eq, Hash)] pub struct RawVal; } }
pub mod mem_store { pub mod value { #[derive(Clone, Copy, Debug, PartialEq, Eq, Hash)] pub struct Val<'a>(pub std::marker::PhantomData<&'a ()>); } }
pub mod tys { include!("types.rs"); }
#[path = "@REPO@/src/engine/execution/buffer.rs"]
pub mod buffer;
    use crate::buffer::*;
    use crate::engine::data_types::*;
    use crate::mem_store::value::Val;
    use std::collections::HashMap;
    use std::marker::PhantomData;
    use self::QueryPlan::*;
    #[derive(Clone, Copy, Debug, PartialEq)] pub enum Aggregator { SumI64 } // payload type of variants that are not exercised
    include!("planner.rs");

    #[cfg(kani)]
    mod proofs {
        use super::*;
        fn any_tag() -> EncodingType {
            let k: u8 = kani::any();
            kani::assume(k < 30);
            use EncodingType::*;
            match k {
                0 => Str, 1 => I64, 2 => U8, 3 => U16, 4 => U32, 5 => U64, 6 => F64, 7 => Val, 8 => USize, 9 => Bitvec,
                10 => NullableStr, 11 => NullableI64, 12 => NullableU8, 13 => NullableU16, 14 => NullableU32, 15 => NullableU64, 16 => NullableF64,
                17 => OptStr, 18 => Null, 19 => ScalarI64, 20 => ScalarF64, 21 => ScalarStr, 22 => ScalarString, 23 => ConstVal,
                24 => ByteSlices(kani::any()), 25 => ValRows, 26 => Premerge, _ => MergeOp,
            }
        }
        fn any_buf(limit: usize, tag: EncodingType) -> TypedBufferRef {
            let i: usize = kani::any();
            kani::assume(i < limit);
            TypedBufferRef::new(BufferRef { i, name: "x", t: PhantomData }, tag)
        }
        fn same(a: &TypedBufferRef, b: &TypedBufferRef) -> bool { a.buffer.i == b.buffer.i && a.tag == b.tag }
        // operands and result with the given types, any buffer indices
        fn setup(lt: EncodingType, rt: EncodingType, out_tag: EncodingType) -> (BufferProvider, TypedBufferRef, TypedBufferRef, TypedBufferRef) {
            let count: usize = kani::any();
            kani::assume(count >= 3 && count < usize::MAX - 8);
            let bp = BufferProvider { buffer_count: count, all_buffers: Vec::new() };
            let lhs = any_buf(count, lt);
            let rhs = any_buf(count, rt);
            let out = any_buf(count, out_tag);
            kani::assume(out.buffer.i != lhs.buffer.i && out.buffer.i != rhs.buffer.i);
            (bp, lhs, rhs, out)
        }
        // the three nullability patterns of a binary operator with nullable result (what type inference `null=lhs,rhs` produces),
        // with representative types; the planner fns read a type only through is_nullable() / non_nullable() (see tag_tables)
        const PATTERNS: [(EncodingType, EncodingType); 3] = [
            (EncodingType::NullableI64, EncodingType::NullableU8), (EncodingType::NullableF64, EncodingType::ScalarI64), (EncodingType::U32, EncodingType::NullableI64)];
        // which buffers feed the presence bitmap `present`
        fn present_sources(ops: &[QueryPlan], present: usize) -> (Option<TypedBufferRef>, Option<TypedBufferRef>, bool) {
            let mut r = (None, None, false);
            for o in ops.iter() {
                match o {
                    CombineNullMaps { lhs, rhs, present: p } if p.i == present => { r = (Some(*lhs), Some(*rhs), true); }
                    GetNullMap { nullable, present: p } if p.i == present => { r = (Some(*nullable), None, true); }
                    _ => {}
                }
            }
            r
        }
        // which buffers decide the NULLs of `out`, and which buffer supplies its values
        fn null_sources(ops: &[QueryPlan], out: &TypedBufferRef) -> (Option<TypedBufferRef>, Option<TypedBufferRef>, Option<TypedBufferRef>) {
            let mut r = (None, None, None);
            for o in ops.iter() {
                match o {
                    AssembleNullable { data, present, nullable } if same(nullable, out) => { let (a, b, _) = present_sources(ops, present.i); r = (a, b, Some(*data)); }
                    PropagateNullability { nullable, data, nullable_data } if same(nullable_data, out) => { r = (Some(*nullable), None, Some(*data)); }
                    _ => {}
                }
            }
            r
        }
        fn covers(src: &(Option<TypedBufferRef>, Option<TypedBufferRef>), x: &TypedBufferRef) -> bool {
            src.0.map_or(false, |a| same(&a, x)) || src.1.map_or(false, |b| same(&b, x))
        }
        fn only_operands(src: &(Option<TypedBufferRef>, Option<TypedBufferRef>), lhs: &TypedBufferRef, rhs: &TypedBufferRef) -> bool {
            src.0.map_or(true, |a| (same(&a, lhs) || same(&a, rhs)) && a.is_nullable()) && src.1.map_or(true, |b| (same(&b, lhs) || same(&b, rhs)) && b.is_nullable())
        }

        macro_rules! binary { ($h:ident, $V:ident, $out:ident) => {
            #[kani::proof]
            #[kani::unwind(5)]
            fn $h() { for k in 0..3 {
                let (mut bp, lhs, rhs, out) = setup(PATTERNS[k].0, PATTERNS[k].1, EncodingType::NullableU8);
                let fresh_from = bp.buffer_count;
                let op = $V { lhs, rhs, $out: out };
                match propagate_nullability(&op, &mut bp) {
                    Rewrite::ReplaceWith(ops) => {
                        let (a, b, data) = null_sources(&ops, &out);
                        assert!(data.is_some(), "[result-defined] the rewritten plan still defines the nullable result buffer");
                        let data = data.unwrap();
                        let src = (a, b);
                        assert!(!lhs.is_nullable() || covers(&src, &lhs), "[lhs-null-propagates] NULLs of the left operand make the result NULL");
                        assert!(!rhs.is_nullable() || covers(&src, &rhs), "[rhs-null-propagates] NULLs of the right operand make the result NULL");
                        assert!(only_operands(&src, &lhs, &rhs), "[only-operand-nulls] nothing but the operands' NULLs makes the result NULL");
                        let mut found = false;
                        for o in ops.iter() {
                            if let $V { lhs: l, rhs: r, $out: d } = o {
                                if same(d, &data) { found = same(l, &lhs.forget_nullability()) && same(r, &rhs.forget_nullability()) && !d.is_nullable() && d.buffer.i >= fresh_from; }
                            }
                        }
                        assert!(found, "[values-from-same-op] the values come from the same operator applied to the operands' data, written to a fresh buffer");
                    }
                    Rewrite::None => { assert!(false, "[rewritten] an operator with a nullable result is rewritten"); }
                }
            } }
        } }
        binary!(add_nulls, Add, sum);
        binary!(subtract_nulls, Subtract, difference);
        binary!(multiply_nulls, Multiply, product);
        binary!(divide_nulls, Divide, division);
        binary!(modulo_nulls, Modulo, modulo);
        // And / Or are NOT in this list: for them strict NULL propagation is not what the property asks for (three-valued logic,
        // see or_is_three_valued / and_is_three_valued below)
        binary!(less_than_nulls, LessThan, less_than);
        binary!(less_than_equals_nulls, LessThanEquals, less_than_equals);
        binary!(equals_nulls, Equals, equals);
        binary!(not_equals_nulls, NotEquals, not_equals);

        macro_rules! checked { ($h:ident, $V:ident, $N:ident, $out:ident) => {
            #[kani::proof]
            #[kani::unwind(5)]
            fn $h() { for k in 0..3 {
                let (mut bp, lhs, rhs, out) = setup(PATTERNS[k].0, PATTERNS[k].1, EncodingType::NullableI64);
                let op = $V { lhs, rhs, $out: out };
                match propagate_nullability(&op, &mut bp) {
                    Rewrite::ReplaceWith(ops) => {
                        let mut found = false;
                        for o in ops.iter() {
                            if let $N { lhs: l, rhs: r, present, $out: d } = o {
                                if d.i == out.buffer.i {
                                    let (a, b, defined) = present_sources(&ops, present.i);
                                    let src = (a, b);
                                    found = defined && same(l, &lhs.forget_nullability()) && same(r, &rhs.forget_nullability())
                                        && (!lhs.is_nullable() || covers(&src, &lhs)) && (!rhs.is_nullable() || covers(&src, &rhs)) && only_operands(&src, &lhs, &rhs);
                                }
                            }
                        }
                        assert!(found, "[checked-nulls] the null-aware checked operator runs on the operands' data with a presence bitmap built from exactly the operands' NULLs");
                    }
                    Rewrite::None => { assert!(false, "[rewritten] an operator with a nullable result is rewritten"); }
                }
            } }
        } }
        checked!(checked_add_nulls, CheckedAdd, NullableCheckedAdd, sum);
        checked!(checked_subtract_nulls, CheckedSubtract, NullableCheckedSubtract, difference);
        checked!(checked_multiply_nulls, CheckedMultiply, NullableCheckedMultiply, product);
        checked!(checked_divide_nulls, CheckedDivide, NullableCheckedDivide, division);
        checked!(checked_modulo_nulls, CheckedModulo, NullableCheckedModulo, modulo);

        // what the planner reads of a type: is_nullable() is true exactly for the Nullable* types, and non_nullable() maps each
        // of them to its base type and leaves every other type alone (complete over all types)
        #[kani::proof]
        fn tag_tables() {
            use EncodingType::*;
            let t = any_tag();
            let expect = match t { NullableStr => Some(Str), NullableI64 => Some(I64), NullableU8 => Some(U8), NullableU16 => Some(U16), NullableU32 => Some(U32), NullableU64 => Some(U64), NullableF64 => Some(F64), _ => None };
            assert!(t.is_nullable() == expect.is_some(), "[is-nullable-table] is_nullable() is true exactly for the types that carry a presence bitmap");
            match expect {
                Some(base) => assert!(t.non_nullable() == base && !base.is_nullable(), "[non-nullable-table] non_nullable() of a nullable type is its base type"),
                None => assert!(t == OptStr || t.non_nullable() == t, "[non-nullable-identity] non_nullable() leaves other types unchanged"),
            }
        }


        // unary arms: the NULLs of the result are exactly the NULLs of the (nullable) input
        macro_rules! unary { ($h:ident, $mk:expr, $is_value_op:expr) => {
            #[kani::proof]
            #[kani::unwind(5)]
            fn $h() {
                let (mut bp, input, other, out) = setup(EncodingType::NullableI64, EncodingType::U8, EncodingType::NullableU8);
                let fresh_from = bp.buffer_count;
                let op: QueryPlan = ($mk)(input, other, out);
                match propagate_nullability(&op, &mut bp) {
                    Rewrite::ReplaceWith(ops) => {
                        let (a, b, data) = null_sources(&ops, &out);
                        assert!(data.is_some(), "[result-defined] the rewritten plan still defines the nullable result buffer");
                        let data = data.unwrap();
                        assert!(covers(&(a, b), &input) && only_operands(&(a, b), &input, &input), "[input-null-propagates] the result is NULL exactly where the input is NULL");
                        let mut found = false;
                        for o in ops.iter() { if ($is_value_op)(o, &input.forget_nullability(), &data) { found = !data.is_nullable() && data.buffer.i >= fresh_from; } }
                        assert!(found, "[values-from-same-op] the values come from the same operator applied to the input's data, written to a fresh buffer");
                    }
                    Rewrite::None => { assert!(false, "[rewritten] an operator with a nullable result is rewritten"); }
                }
            }
        } }
        unary!(cast_nulls, |input, _other, out| Cast { input, casted: out },
               |o: &QueryPlan, i: &TypedBufferRef, d: &TypedBufferRef| match o { Cast { input, casted } => same(input, i) && same(casted, d), _ => false });
        unary!(floor_nulls, |input, _other, out| Floor { input, floor: out },
               |o: &QueryPlan, i: &TypedBufferRef, d: &TypedBufferRef| match o { Floor { input, floor } => same(input, i) && same(floor, d), _ => false });
        unary!(dict_lookup_nulls, |input, other: TypedBufferRef, out| DictLookup { indices: input, offset_len: BufferRef { i: other.buffer.i, name: "ol", t: PhantomData }, backing_store: BufferRef { i: other.buffer.i, name: "bs", t: PhantomData }, decoded: out },
               |o: &QueryPlan, i: &TypedBufferRef, d: &TypedBufferRef| match o { DictLookup { indices, decoded, .. } => same(indices, i) && same(decoded, d), _ => false });

        // MergeKeep of a nullable and a non-nullable side: the non-nullable side is wrapped (MakeNullable), then merged
        #[kani::proof]
        #[kani::unwind(5)]
        fn merge_keep_mixed_nullability() { for k in 0..2 {
            let sides = [(EncodingType::NullableI64, EncodingType::I64), (EncodingType::Str, EncodingType::NullableStr)];
            let (mut bp, lhs, rhs, out) = setup(sides[k].0, sides[k].1, sides[k].0.nullable());
            let take_left: BufferRef<u8> = BufferRef { i: out.buffer.i, name: "tl", t: PhantomData };
            let op = MergeKeep { take_left, lhs, rhs, merged: out };
            match propagate_nullability(&op, &mut bp) {
                Rewrite::ReplaceWith(ops) => {
                    let mut wrapped: Option<(TypedBufferRef, TypedBufferRef)> = None;
                    let mut merged_ok = false;
                    for o in ops.iter() {
                        match o {
                            MakeNullable { data, nullable, .. } => { wrapped = Some((*data, *nullable)); }
                            MergeKeep { lhs: l, rhs: r, merged, .. } => {
                                if let Some((d, n)) = wrapped {
                                    merged_ok = same(merged, &out) && l.is_nullable() && r.is_nullable()
                                        && ((same(&d, &lhs) && same(l, &n) && same(r, &rhs)) || (same(&d, &rhs) && same(r, &n) && same(l, &lhs)));
                                }
                            }
                            _ => {}
                        }
                    }
                    assert!(merged_ok, "[both-sides-nullable] the side without NULLs is wrapped as all-present and the merge runs on two nullable sides, each still its own side");
                }
                Rewrite::None => { assert!(false, "[rewritten] a merge of a nullable with a non-nullable side is rewritten"); }
            }
        } }

        // ---- three-valued logic (C03: "AND, OR and NOT combine as usual"): one row through the rewritten plan ----
        // a buffer is (data byte, presence bit); forget_nullability() names the data of the same buffer; the data byte of a
        // NULL row is arbitrary (the engine leaves a placeholder there)
        #[derive(Clone, Copy)]
        struct Row1 { li: usize, lv: bool, lp: bool, ri: usize, rv: bool, rp: bool }
        fn data_of(ops: &[QueryPlan], id: usize, r: &Row1, is_or: bool) -> bool {
            if id == r.li { return r.lv; }
            if id == r.ri { return r.rv; }
            let mut v = false;
            for o in ops.iter() {
                match o {
                    Or { lhs, rhs, or } if or.buffer.i == id && is_or => { v = data_of1(lhs.buffer.i, r) | data_of1(rhs.buffer.i, r); }
                    And { lhs, rhs, and } if and.buffer.i == id && !is_or => { v = data_of1(lhs.buffer.i, r) & data_of1(rhs.buffer.i, r); }
                    _ => {}
                }
            }
            v
        }
        fn data_of1(id: usize, r: &Row1) -> bool { if id == r.li { r.lv } else { r.rv } }
        fn present_of(ops: &[QueryPlan], present: usize, r: &Row1) -> bool {
            let mut p = true;
            for o in ops.iter() {
                match o {
                    CombineNullMaps { lhs, rhs, present: pb } if pb.i == present => { p = (if lhs.buffer.i == r.li { r.lp } else { r.rp }) & (if rhs.buffer.i == r.li { r.lp } else { r.rp }); }
                    GetNullMap { nullable, present: pb } if pb.i == present => { p = if nullable.buffer.i == r.li { r.lp } else { r.rp }; }
                    _ => {}
                }
            }
            p
        }
        // value of the rewritten plan's result buffer for that row: None = NULL
        fn result3(ops: &[QueryPlan], out: &TypedBufferRef, r: &Row1, is_or: bool) -> Option<bool> {
            let mut res = None;
            for o in ops.iter() {
                match o {
                    AssembleNullable { data, present, nullable } if same(nullable, out) => { res = if present_of(ops, present.i, r) { Some(data_of(ops, data.buffer.i, r, is_or)) } else { None }; }
                    PropagateNullability { nullable, data, nullable_data } if same(nullable_data, out) => { let p = if nullable.buffer.i == r.li { r.lp } else { r.rp }; res = if p { Some(data_of(ops, data.buffer.i, r, is_or)) } else { None }; }
                    _ => {}
                }
            }
            res
        }
        macro_rules! three_valued { ($h:ident, $V:ident, $out:ident, $is_or:expr) => {
            #[kani::proof]
            #[kani::unwind(5)]
            fn $h() { for k in 0..3 {
                let (lt, rt) = [(EncodingType::NullableU8, EncodingType::NullableU8), (EncodingType::NullableU8, EncodingType::U8), (EncodingType::U8, EncodingType::NullableU8)][k];
                let (mut bp, lhs, rhs, out) = setup(lt, rt, EncodingType::NullableU8);
                kani::assume(lhs.buffer.i != rhs.buffer.i);
                let row = Row1 { li: lhs.buffer.i, lv: kani::any(), lp: if lhs.is_nullable() { kani::any() } else { true }, ri: rhs.buffer.i, rv: kani::any(), rp: if rhs.is_nullable() { kani::any() } else { true } };
                let op = $V { lhs, rhs, $out: out };
                match propagate_nullability(&op, &mut bp) {
                    Rewrite::ReplaceWith(ops) => {
                        let l3 = if row.lp { Some(row.lv) } else { None };
                        let r3 = if row.rp { Some(row.rv) } else { None };
                        let want = if $is_or {
                            match (l3, r3) { (Some(true), _) | (_, Some(true)) => Some(true), (Some(false), Some(false)) => Some(false), _ => None }
                        } else {
                            match (l3, r3) { (Some(false), _) | (_, Some(false)) => Some(false), (Some(true), Some(true)) => Some(true), _ => None }
                        };
                        let got = result3(&ops, &out, &row, $is_or);
                        if $is_or {
                            assert!(want != Some(true) || got == Some(true), "[true-or-null-is-true] a row for which one side of OR is true is kept even if the other side is NULL");
                        } else {
                            assert!(want != Some(false) || got == Some(false), "[false-and-null-is-false] FALSE AND NULL is FALSE (matters under NOT / OR)");
                        }
                        assert!(want.is_none() || got.is_none() || got == want, "[defined-values-agree] where both are defined the result is the SQL truth value");
                    }
                    Rewrite::None => { assert!(false, "[rewritten] an operator with a nullable result is rewritten"); }
                }
            } }
        } }
        three_valued!(or_is_three_valued, Or, or, true);
        three_valued!(and_is_three_valued, And, and, false);

        #[kani::proof]
        fn vx_canary() {
            let x: u8 = kani::any();
            assert!(x < 200, "[canary] must fail");
        }
    } // mod proofs
