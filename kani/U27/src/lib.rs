// U27 (Kani, complete): which rows a column that a partition does not contain is given under a WHERE clause (C13 / C12).
// Two tables that must agree: compile_expr picks a NullVecLike source_type number per filter kind, query_plan::prepare
// decodes that number into the operator's LengthSource, and Filter::apply_filter picks the operator that filters the real
// columns.  Real code: buffer.rs whole (#[path]); enum Filter + impl, enum LengthSource, EncodingType (items); the two
// match expressions (slices).  The ASTBuilder-generated planner methods are recording stand-ins (A-astbuilder).
#![allow(dead_code, unused_imports, unused_variables, unused_macros, non_camel_case_types)]
pub mod shim { include!("../common_shim.rs"); }
pub use shim::QueryError;
macro_rules! ensure { ($c:expr, $($t:tt)*) => { if !$c { return Err(QueryError::FatalError); } }; }
macro_rules! info { ($($t:tt)*) => {}; }
pub mod engine { pub mod data_types {
    pub use crate::tys::*;
    pub type of64 = ordered_float::OrderedFloat<f64>;
    #[derive(Clone, Copy, Debug, PartialEq, Eq, Hash)] pub struct MergeOp;
    #[derive(Clone, Copy, Debug, PartialEq, Eq, Hash)] pub struct Premerge;
    #[derive(Clone, Copy, Debug, PartialEq, Eq, Hash)] pub struct ValRows<'a>(pub std::marker::PhantomData<&'a ()>);
} }
pub mod ingest { pub mod raw_val { #[derive(Clone, Copy, Debug, PartialEq, Eq, Hash)] pub struct RawVal; } }
pub mod mem_store { pub mod value { #[derive(Clone, Copy, Debug, PartialEq, Eq, Hash)] pub struct Val<'a>(pub std::marker::PhantomData<&'a ()>); } }
pub mod tys { include!("types.rs"); }
#[path = "@REPO@/src/engine/execution/buffer.rs"]
pub mod buffer;
use crate::buffer::*;
use crate::engine::data_types::*;
use std::marker::PhantomData;

// A-astbuilder: a generated planner method creates the node named after it from its arguments, in order, and returns the
// node's output buffer.  The stand-in records which method was called with which arguments.
#[derive(Clone, Copy, PartialEq, Debug)]
pub enum Node { None, Other, FuseNulls { input: usize }, TopN { ranking: usize, n: usize, desc: bool }, Indices { of: usize }, SortBy { ranking: usize, indices: usize, desc: bool, stable: bool }, NullVec { len: usize }, NullVecLike { plan: usize, source_type: u8 }, Filter { plan: usize, by: usize }, NullableFilter { plan: usize, by: usize }, Select { plan: usize, by: usize }, Empty }
// `applied`: how many row filters (Filter / NullableFilter / Select) lie between the partition's rows and a buffer; `inp` is a buffer
// produced elsewhere (compile_expr's result) with its own count
pub struct QueryPlanner { pub last: Node, pub next: usize, pub fused: usize, pub next0: usize, pub applied: [u8; 8], pub inp: usize, pub inp_applied: u8 }
pub struct Nfq { pub order_by: Vec<()> }
impl QueryPlanner {
    pub fn new(next0: usize) -> QueryPlanner { QueryPlanner { last: Node::None, next: next0, fused: 0, next0, applied: [0; 8], inp: usize::MAX, inp_applied: 0 } }
    pub fn applied_to(&self, id: usize) -> u8 { if id == self.inp { self.inp_applied } else if id > self.next0 && id <= self.next && id - self.next0 <= 8 { self.applied[id - self.next0 - 1] } else { 0 } }
    fn out_d(&mut self, n: Node, tag: EncodingType, d: u8) -> TypedBufferRef { self.last = n; self.next += 1; let k = self.next - self.next0 - 1; if k < 8 { self.applied[k] = d; } TypedBufferRef::new(BufferRef { i: self.next, name: "out", t: PhantomData }, tag) }
    fn out(&mut self, n: Node, tag: EncodingType) -> TypedBufferRef { self.out_d(n, tag, 0) }
    // value-level nodes keep the row set of their input
    pub fn cast(&mut self, input: TypedBufferRef, t: EncodingType) -> TypedBufferRef { let d = self.applied_to(input.buffer.i); self.out_d(Node::Other, t, d) }
    pub fn fuse_int_nulls(&mut self, _offset: i64, nullable: TypedBufferRef) -> TypedBufferRef { let d = self.applied_to(nullable.buffer.i); let t = nullable.tag.non_nullable(); self.out_d(Node::Other, t, d) }
    pub fn add(&mut self, lhs: TypedBufferRef, rhs: TypedBufferRef) -> TypedBufferRef { let d = self.applied_to(lhs.buffer.i); self.out_d(Node::Other, EncodingType::I64, d) }
    pub fn scalar_i64(&mut self, _v: i64, _hide: bool) -> BufferRef<Scalar<i64>> { self.out_d(Node::Other, EncodingType::ScalarI64, 0).scalar_i64().unwrap() }
    pub fn constant_expand(&mut self, _v: i64, _len: usize, t: EncodingType) -> TypedBufferRef { self.out_d(Node::Other, t, 0) }
    pub fn null_vec(&mut self, len: usize, nulls: EncodingType) -> TypedBufferRef { self.out(Node::NullVec { len }, nulls) }
    pub fn null_vec_like(&mut self, plan: TypedBufferRef, source_type: u8, nulls: EncodingType) -> TypedBufferRef { self.out(Node::NullVecLike { plan: plan.buffer.i, source_type }, nulls) }
    pub fn filter(&mut self, plan: TypedBufferRef, select: BufferRef<u8>) -> TypedBufferRef { let d = self.applied_to(plan.buffer.i) + 1; self.out_d(Node::Filter { plan: plan.buffer.i, by: select.i }, plan.tag, d) }
    pub fn nullable_filter(&mut self, plan: TypedBufferRef, select: BufferRef<Nullable<u8>>) -> TypedBufferRef { let d = self.applied_to(plan.buffer.i) + 1; self.out_d(Node::NullableFilter { plan: plan.buffer.i, by: select.i }, plan.tag, d) }
    pub fn select(&mut self, plan: TypedBufferRef, indices: BufferRef<usize>) -> TypedBufferRef { let d = self.applied_to(plan.buffer.i) + 1; self.out_d(Node::Select { plan: plan.buffer.i, by: indices.i }, plan.tag, d) }
    pub fn empty(&mut self, t: EncodingType) -> TypedBufferRef { self.out(Node::Empty, t) }
    // fuse_nulls: the generated method derives the output type with EncodingType::nullable_fused() (#[output(t = "base=nullable;null=_fused")])
    pub fn fuse_nulls(&mut self, nullable: TypedBufferRef) -> TypedBufferRef { let t = nullable.tag.nullable_fused(); self.fused += 1; self.out(Node::FuseNulls { input: nullable.buffer.i }, t) }
    pub fn top_n(&mut self, ranking: TypedBufferRef, n: usize, desc: bool) -> TypedBufferRef { self.out(Node::TopN { ranking: ranking.buffer.i, n, desc }, EncodingType::USize) }
    pub fn indices(&mut self, plan: TypedBufferRef) -> TypedBufferRef { self.out(Node::Indices { of: plan.buffer.i }, EncodingType::USize) }
    pub fn sort_by(&mut self, ranking: TypedBufferRef, indices: TypedBufferRef, desc: bool, stable: bool) -> TypedBufferRef { self.out(Node::SortBy { ranking: ranking.buffer.i, indices: indices.buffer.i, desc, stable }, EncodingType::USize) }
}
include!("routing.rs");

#[cfg(kani)]
mod proofs {
    use super::*;
    fn any_filter() -> Filter {
        let k: u8 = kani::any();
        let i: usize = kani::any();
        kani::assume(k < 5 && i < usize::MAX / 2);
        match k {
            0 => Filter::None, 1 => Filter::Null,
            2 => Filter::U8(BufferRef { i, name: "f", t: PhantomData }),
            3 => Filter::NullableU8(BufferRef { i, name: "f", t: PhantomData }),
            _ => Filter::Indices(BufferRef { i, name: "f", t: PhantomData }),
        }
    }
    // The stand-in NULL column has as many rows as the filter keeps of a real column:
    //   no filter -> all rows; constant-NULL filter -> none; byte filter -> the non-zero bytes; nullable byte filter -> the
    //   non-zero bytes that are present (a NULL predicate keeps nothing); index list -> one row per index.
    #[kani::proof]
    fn missing_column_rows_match_filter() {
        let filter = any_filter();
        let column_len: usize = kani::any();
        let mut planner = QueryPlanner::new(usize::MAX / 2);
        let col = TypedBufferRef::new(BufferRef { i: kani::any(), name: "c", t: PhantomData }, EncodingType::I64);
        let real = filter.apply_filter(&mut planner, col);
        let real_node = planner.last;
        planner.last = Node::None;
        let nulls = missing_column_plan(filter, column_len, &mut planner);
        let null_node = planner.last;
        assert!(nulls.tag == EncodingType::Null, "[null-typed] the stand-in is a NULL column");
        match filter {
            Filter::None => {
                assert!(real_node == Node::None && real.buffer.i == col.buffer.i, "[unfiltered-real] without a filter the column is used as is");
                assert!(null_node == Node::NullVec { len: column_len }, "[unfiltered-null] without a filter the stand-in has the partition's row count");
            }
            Filter::Null => {
                assert!(real_node == Node::Empty, "[null-filter-real] a constant-NULL predicate keeps no rows");
                assert!(null_node == Node::NullVec { len: 0 }, "[null-filter-null] ... and the stand-in has no rows");
            }
            Filter::U8(f) => {
                assert!(real_node == Node::Filter { plan: col.buffer.i, by: f.i }, "[u8-filter-real] a byte predicate filters with Filter");
                match null_node {
                    Node::NullVecLike { plan, source_type } => assert!(plan == f.i && decode_length_source(source_type) == LengthSource::NonZeroU8ElementCount, "[u8-filter-null] ... and the stand-in counts the predicate's non-zero bytes"),
                    _ => assert!(false, "[u8-filter-null] ... and the stand-in counts the predicate's non-zero bytes"),
                }
            }
            Filter::NullableU8(f) => {
                assert!(real_node == Node::NullableFilter { plan: col.buffer.i, by: f.i }, "[nullable-filter-real] a nullable predicate filters with NullableFilter (NULL keeps nothing)");
                match null_node {
                    Node::NullVecLike { plan, source_type } => assert!(plan == f.i && decode_length_source(source_type) == LengthSource::NonNullElementCount, "[nullable-filter-null] ... and the stand-in counts the rows where the predicate is true and not NULL"),
                    _ => assert!(false, "[nullable-filter-null] ... and the stand-in counts the rows where the predicate is true and not NULL"),
                }
            }
            Filter::Indices(f) => {
                assert!(real_node == Node::Select { plan: col.buffer.i, by: f.i }, "[indices-real] an index list selects with Select");
                match null_node {
                    Node::NullVecLike { plan, source_type } => assert!(plan == f.i && decode_length_source(source_type) == LengthSource::InputLength, "[indices-null] ... and the stand-in has one row per index"),
                    _ => assert!(false, "[indices-null] ... and the stand-in has one row per index"),
                }
            }
        }
    }
    fn any_tag() -> EncodingType {
        let k: u8 = kani::any();
        kani::assume(k < 30);
        use EncodingType::*;
        match k {
            0 => Str, 1 => I64, 2 => U8, 3 => U16, 4 => U32, 5 => U64, 6 => F64, 7 => Val, 8 => USize, 9 => Bitvec,
            10 => NullableStr, 11 => NullableI64, 12 => NullableU8, 13 => NullableU16, 14 => NullableU32, 15 => NullableU64, 16 => NullableF64,
            17 => OptStr, 18 => Null, 19 => ScalarI64, 20 => ScalarF64, 21 => ScalarStr, 22 => ScalarString, 23 => ConstVal,
            24 => ByteSlices(kani::any()), 25 => ValRows, 26 => Premerge, _ => MergeOp,
        }
    }
    // ORDER BY one key with a small LIMIT: whatever the type of the sort key (narrow nullable encodings included), the planner
    // produces a plan - top-n over a key that has a fused-NULL representation, or a full sort - and never panics
    #[kani::proof]
    #[kani::unwind(4)]
    fn order_by_path_for_every_key_type() {
        let ranking = TypedBufferRef::new(BufferRef { i: kani::any(), name: "r", t: PhantomData }, any_tag());
        let keys: u8 = kani::any();
        kani::assume(keys >= 1 && keys <= 2);
        let this = Nfq { order_by: if keys == 1 { vec![()] } else { vec![(), ()] } };
        let (limit, len): (usize, usize) = (kani::any(), kani::any());
        let desc: bool = kani::any();
        let mut planner = QueryPlanner::new(usize::MAX / 2);
        kani::cover!(ranking.tag == EncodingType::NullableU8 && limit < len / 2 && keys == 1, "vacuity: small LIMIT on a narrow nullable key");
        let out = order_by_indices(&this, &mut planner, ranking, limit, 0..len, &desc, None);
        match planner.last {
            Node::TopN { n, desc: d, .. } => assert!(n == limit && d == desc && keys == 1 && limit < len / 2, "[top-n-only-when-small] the heap is used only for one key and a LIMIT below half the partition"),
            Node::SortBy { ranking: r, desc: d, stable, .. } => assert!(r == ranking.buffer.i && d == desc && stable, "[full-sort] otherwise the key is sorted (stably) in the requested direction"),
            Node::Indices { of } => assert!(ranking.is_constant() && of == ranking.buffer.i, "[constant-key] a constant key leaves the row order alone"),
            _ => assert!(false, "[some-plan] a sort plan is produced"),
        }
    }

    // GROUP BY with several keys under a WHERE clause: every field of the packed key is filtered exactly once - the key of
    // output row r must come from the same table row as the aggregated value of row r (C04: "grouping key construction with
    // filter applied once")
    #[kani::proof]
    fn key_field_is_filtered_once() {
        let filter = any_filter();
        kani::assume(!matches!(filter, Filter::Null));
        let filtered = !matches!(filter, Filter::None);
        let mut planner = QueryPlanner::new(1000);
        let tags = [EncodingType::U8, EncodingType::I64, EncodingType::NullableU8, EncodingType::NullableI64, EncodingType::Null];
        let k: usize = kani::any();
        kani::assume(k < 5);
        // compile_expr's result: a column (or expression over columns) that the filter has already been applied to;
        // a column missing from the partition (type Null) has no rows of its own yet
        let query_plan = TypedBufferRef::new(BufferRef { i: 7, name: "key", t: PhantomData }, tags[k]);
        planner.inp = 7;
        planner.inp_applied = if filtered && k != 4 { 1 } else { 0 };
        let (min, subtract_offset): (i64, bool) = (kani::any(), kani::any());
        kani::assume(min > i64::MIN / 2 && min < i64::MAX / 2);
        // a missing column has the range (0, 0): no offset is subtracted from it (try_bitpacking: subtract_offset needs min < 0,
        // a nullable type or a range far from zero)
        kani::assume(k != 4 || (!subtract_offset && min == 0));
        let r = key_field_plan(query_plan, min, subtract_offset, filter, kani::any(), &mut planner);
        match r {
            Ok(field) => assert!(planner.applied_to(field.i) == (if filtered { 1 } else { 0 }), "[filtered-once] a key field is the filtered column, not the filtered column filtered again (else keys and aggregated values come from different rows)"),
            Err(_) => {}
        }
    }

    #[kani::proof]
    fn vx_canary() {
        let x: u8 = kani::any();
        assert!(x < 200, "[canary] must fail");
    }
} // mod proofs
