// U37 (Kani, BOUNDED in column length): server::encode_column - how a result column is turned into the wire representation
// (C16: "what a client reads is what the query produced").  Real code: fn encode_column, enum BasicTypeColumn, enum RawVal
// (items); api::Column / api::AnyVal and xor_float::NULL come from the unmodified sub-crates.
#![allow(dead_code, unused_imports, unused_variables)]
use locustdb_serialization::api;
use locustdb_compression_utils::xor_float;
use ordered_float::OrderedFloat;
// R10: api::EncodingOpts reduced to the two fields encode_column reads (the third is a HashSet<String> of column names)
pub struct EncodingOpts { pub xor_float_compression: bool, pub mantissa: Option<u32> }
include!("encode.rs");
pub type Value = RawVal;

#[cfg(kani)]
mod proofs {
    use super::*;
    const N: usize = 3;
    #[derive(Clone, Copy, PartialEq)]
    enum Cell { Null, I(i64), F(u64), S }
    fn any_cell() -> Cell {
        let k: u8 = kani::any();
        kani::assume(k < 4);
        match k { 0 => Cell::Null, 1 => Cell::I(kani::any()), 2 => { let f: f64 = kani::any(); kani::assume(f.to_bits() != xor_float::NULL.to_bits()); Cell::F(f.to_bits()) }, _ => Cell::S }
    }
    fn to_raw(c: Cell) -> RawVal { match c { Cell::Null => RawVal::Null, Cell::I(i) => RawVal::Int(i), Cell::F(b) => RawVal::Float(OrderedFloat(f64::from_bits(b))), Cell::S => RawVal::Str(String::new()) } }
    // what a client reads at row i of a wire column
    fn read(col: &api::Column, i: usize) -> Cell {
        match col {
            api::Column::Int(v) => Cell::I(v[i]),
            api::Column::Float(v) => if v[i].to_bits() == xor_float::NULL.to_bits() { Cell::Null } else { Cell::F(v[i].to_bits()) },
            api::Column::String(v) => Cell::S,
            api::Column::Null(_) => Cell::Null,
            api::Column::Mixed(v) => match &v[i] { api::AnyVal::Int(x) => Cell::I(*x), api::AnyVal::Float(f) => Cell::F(f.to_bits()), api::AnyVal::Str(_) => Cell::S, api::AnyVal::Null => Cell::Null },
            api::Column::Xor(_) => Cell::Null,
        }
    }
    fn wire_len(col: &api::Column) -> usize {
        match col { api::Column::Int(v) => v.len(), api::Column::Float(v) => v.len(), api::Column::String(v) => v.len(), api::Column::Null(n) => *n, api::Column::Mixed(v) => v.len(), api::Column::Xor(_) => 0 }
    }
    #[kani::proof]
    #[kani::unwind(5)]
    fn mixed_column_reads_back() {
        let cells = [any_cell(), any_cell(), any_cell()];
        let xs = vec![to_raw(cells[0]), to_raw(cells[1]), to_raw(cells[2])];
        let opts = EncodingOpts { xor_float_compression: false, mantissa: None };
        let out = encode_column(BasicTypeColumn::Mixed(xs), &opts);
        kani::cover!(matches!(out, api::Column::Float(_)), "vacuity: a float/NULL column is sent as floats");
        kani::cover!(matches!(out, api::Column::Mixed(_)), "vacuity: a genuinely mixed column is sent as mixed");
        assert!(wire_len(&out) == N, "[row-count] the wire column has one entry per row");
        for i in 0..N { assert!(read(&out, i) == cells[i], "[cell-reads-back] row i of the wire column is the value the query produced (NULL stays NULL, ints exact, floats bit-exact)"); }
    }
    #[kani::proof]
    fn vx_canary() {
        let x: u8 = kani::any();
        assert!(x < 200, "[canary] must fail");
    }
} // mod proofs
