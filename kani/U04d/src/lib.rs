// U04d (Kani, BOUNDED in length, complete in values): the element-wise arms of the free fn column::decode that compaction
// uses to read integer columns back (Add, ToI64, Delta for u8/u16/u32 and Delta for i64), extracted as slices.
#![allow(dead_code, unused_imports)]
// typed view standing in for `&dyn Data` (R10): same accessor names, nothing else
pub struct View<'a, T>(pub &'a [T]);
impl<'a, T> View<'a, T> { pub fn len(&self) -> usize { self.0.len() } }
impl<'a> View<'a, u8> { pub fn cast_ref_u8(&self) -> &[u8] { self.0 } }
impl<'a> View<'a, u16> { pub fn cast_ref_u16(&self) -> &[u16] { self.0 } }
impl<'a> View<'a, u32> { pub fn cast_ref_u32(&self) -> &[u32] { self.0 } }
impl<'a> View<'a, i64> { pub fn cast_ref_i64(&self) -> &[i64] { self.0 } }
include!("arms.rs");

#[cfg(kani)]
mod proofs {
    use super::*;
    const N: usize = 3;

    macro_rules! narrow {
        ($name:ident, $t:ty, $add:ident, $toi64:ident, $delta:ident) => {
            #[kani::proof]
            #[kani::unwind(5)]
            fn $name() {
                let v: [$t; N] = kani::any();
                let offset: i64 = kani::any();
                // the encoder stored value - offset, so value = stored + offset fits i64 (U04k / U04v)
                kani::assume(offset <= i64::MAX - u32::MAX as i64);
                let a = $add(&View(&v[..]), &offset);
                let w = $toi64(&View(&v[..]));
                let d = $delta(&View(&v[..]));
                assert!(a.len() == N && w.len() == N && d.len() == N, "[same-length] decoding keeps the number of rows");
                let mut sum: i128 = 0;
                for k in 0..N {
                    assert!(a[k] as i128 == v[k] as i128 + offset as i128, "[add] Add(t, offset) decodes to stored + offset");
                    assert!(w[k] as i128 == v[k] as i128, "[toi64] ToI64(t) decodes to the stored value");
                    sum += v[k] as i128;
                    assert!(d[k] as i128 == sum, "[delta] Delta(t) decodes to the running sum of the stored differences");
                }
            }
        };
    }
    narrow!(decode_u8, u8, add_u8, toi64_u8, delta_u8);
    narrow!(decode_u16, u16, add_u16, toi64_u16, delta_u16);
    narrow!(decode_u32, u32, add_u32, toi64_u32, delta_u32);

    #[kani::proof]
    #[kani::unwind(5)]
    fn decode_delta_i64() {
        let v: [i64; N] = kani::any();
        // running sums are the original column values and fit i64 (U04v delta round trip)
        let s1 = v[0] as i128 + v[1] as i128;
        let s2 = s1 + v[2] as i128;
        kani::assume(s1 >= i64::MIN as i128 && s1 <= i64::MAX as i128 && s2 >= i64::MIN as i128 && s2 <= i64::MAX as i128);
        let d = delta_i64(&View(&v[..]));
        assert!(d.len() == N && d[0] == v[0] && d[1] as i128 == s1 && d[2] as i128 == s2, "[delta-i64] Delta(I64) decodes to the running sum");
    }

    // compaction reaches this arm for every hex-packed string column; it must produce the strings, not panic
    #[kani::proof]
    fn unhexpack_arm_is_implemented() {
        unhexpack_arm();
    }
    #[kani::proof]
    fn vx_canary() {
        let x: u8 = kani::any();
        assert!(x < 200, "[canary] must fail");
    }
} // mod proofs
