// U35 (Kani, BOUNDED): TopN::execute - the bounded heap behind `ORDER BY key LIMIT n` (C05; C12: LIMIT 0 must give an
// empty result, not a panic).  Real code: trait Comparator and its i64 impls, heap_replace (items), the body of
// TopN::execute after its scratchpad bindings (statement slice).  Bound: seven fixed (n, rows) shapes with n <= 2 and at most 4 rows in one batch; keys any value in -128..=127.
#![allow(dead_code, unused_imports, unused_variables, unused_mut)]
use std::cell::{Ref, RefCell, RefMut};
use std::cmp;
use std::cmp::Ordering;
#[derive(Debug)]
pub enum QueryError { Other }
pub struct TopNState { pub n: usize, pub last_index: usize }
include!("topn.rs");

#[cfg(kani)]
mod proofs {
    use super::*;
    const ROWS: usize = 4;
    fn run<C: Comparator<i64>>(n: usize, len: usize) {
        let vals: [i8; ROWS] = kani::any();
        let all: Vec<i64> = vec![vals[0] as i64, vals[1] as i64, vals[2] as i64, vals[3] as i64];
        let input_cell = RefCell::new(all.clone());
        let indices_cell: RefCell<Vec<usize>> = RefCell::new(Vec::with_capacity(n));
        let keys_cell: RefCell<Vec<i64>> = RefCell::new(Vec::with_capacity(n));
        kani::assume(indices_cell.borrow().capacity() == n && keys_cell.borrow().capacity() == n); // what TopN::init relies on
        let mut this = TopNState { n, last_index: 0 };
        let r = top_n_execute::<C>(&mut this, Ref::map(input_cell.borrow(), |v| &v[..len]), indices_cell.borrow_mut(), keys_cell.borrow_mut());
        assert!(r.is_ok(), "[ok] a batch is always accepted");
        let keys = keys_cell.borrow();
        let indices = indices_cell.borrow();
        let kept = if n < len { n } else { len };
        assert!(keys.len() == kept && indices.len() == kept, "[keeps-min-n-rows] exactly min(n, rows) rows are kept");
        for j in 0..kept {
            assert!(indices[j] < len && all[indices[j]] == keys[j], "[key-of-its-row] every kept key is the key of the row recorded next to it");
            for k in 0..kept { assert!(j == k || indices[j] != indices[k], "[rows-distinct] no row is kept twice"); }
        }
        for p in 0..len {
            let mut is_kept = false;
            for j in 0..kept { if indices[j] == p { is_kept = true; } }
            if !is_kept { for j in 0..kept { assert!(!C::cmp(all[p], keys[j]), "[dropped-not-better] a row that is dropped does not sort strictly before a row that is kept"); } }
        }
    }
    macro_rules! shape { ($h:ident, $C:ident, $n:expr, $len:expr) => {
        #[kani::proof]
        #[kani::unwind(7)]
        fn $h() { run::<$C>($n, $len); }
    } }
    shape!(limit0_two_rows_asc, CmpLessThan, 0, 2);
    shape!(limit0_one_row_desc, CmpGreaterThan, 0, 1);
    shape!(limit1_three_rows_asc, CmpLessThan, 1, 3);
    shape!(limit2_two_rows_asc, CmpLessThan, 2, 2);
    shape!(limit2_one_row_asc, CmpLessThan, 2, 1);
    shape!(limit2_four_rows_asc, CmpLessThan, 2, 4);
    shape!(limit2_three_rows_desc, CmpGreaterThan, 2, 3);
    shape!(limit3_four_rows_asc, CmpLessThan, 3, 4);
    shape!(limit1_four_rows_desc, CmpGreaterThan, 1, 4);
    // two batches (streaming): the second batch continues the row numbering of the first
    fn run2<C: Comparator<i64>>(n: usize, len1: usize, len2: usize) {
        let vals: [i8; ROWS] = kani::any();
        let all: Vec<i64> = vec![vals[0] as i64, vals[1] as i64, vals[2] as i64, vals[3] as i64];
        let input_cell = RefCell::new(all.clone());
        let indices_cell: RefCell<Vec<usize>> = RefCell::new(Vec::with_capacity(n));
        let keys_cell: RefCell<Vec<i64>> = RefCell::new(Vec::with_capacity(n));
        kani::assume(indices_cell.borrow().capacity() == n && keys_cell.borrow().capacity() == n);
        let mut this = TopNState { n, last_index: 0 };
        let r1 = top_n_execute::<C>(&mut this, Ref::map(input_cell.borrow(), |v| &v[..len1]), indices_cell.borrow_mut(), keys_cell.borrow_mut());
        let r2 = top_n_execute::<C>(&mut this, Ref::map(input_cell.borrow(), |v| &v[len1..len1 + len2]), indices_cell.borrow_mut(), keys_cell.borrow_mut());
        assert!(r1.is_ok() && r2.is_ok(), "[ok] a batch is always accepted");
        let len = len1 + len2;
        let keys = keys_cell.borrow();
        let indices = indices_cell.borrow();
        let kept = if n < len { n } else { len };
        assert!(keys.len() == kept && indices.len() == kept && this.last_index == len, "[keeps-min-n-rows] exactly min(n, rows) rows are kept and every row is counted");
        for j in 0..kept {
            assert!(indices[j] < len && all[indices[j]] == keys[j], "[key-of-its-row] every kept key is the key of the row recorded next to it");
            for k in 0..kept { assert!(j == k || indices[j] != indices[k], "[rows-distinct] no row is kept twice"); }
        }
        for p in 0..len {
            let mut is_kept = false;
            for j in 0..kept { if indices[j] == p { is_kept = true; } }
            if !is_kept { for j in 0..kept { assert!(!C::cmp(all[p], keys[j]), "[dropped-not-better] a row that is dropped does not sort strictly before a row that is kept"); } }
        }
    }
    #[kani::proof]
    #[kani::unwind(7)]
    fn two_batches_fill_in_second_asc() { run2::<CmpLessThan>(2, 1, 3); }
    #[kani::proof]
    #[kani::unwind(7)]
    fn two_batches_full_after_first_desc() { run2::<CmpGreaterThan>(2, 2, 2); }
    // execute followed by finalize: the rows come out in the requested order (the full contract of ORDER BY key LIMIT n within a batch)
    fn run_final<C: Comparator<i64>>(n: usize, len: usize) {
        let vals: [i8; ROWS] = kani::any();
        let all: Vec<i64> = vec![vals[0] as i64, vals[1] as i64, vals[2] as i64, vals[3] as i64];
        let input_cell = RefCell::new(all.clone());
        let indices_cell: RefCell<Vec<usize>> = RefCell::new(Vec::with_capacity(n));
        let keys_cell: RefCell<Vec<i64>> = RefCell::new(Vec::with_capacity(n));
        kani::assume(indices_cell.borrow().capacity() == n && keys_cell.borrow().capacity() == n);
        let mut this = TopNState { n, last_index: 0 };
        let r = top_n_execute::<C>(&mut this, Ref::map(input_cell.borrow(), |v| &v[..len]), indices_cell.borrow_mut(), keys_cell.borrow_mut());
        assert!(r.is_ok(), "[ok] a batch is always accepted");
        let out = top_n_finalize::<C>(indices_cell.borrow_mut(), keys_cell.borrow_mut());
        let kept = if n < len { n } else { len };
        assert!(out.len() == kept, "[keeps-min-n-rows] exactly min(n, rows) rows are returned");
        for j in 0..kept {
            assert!(out[j] < len, "[row-in-range] every returned row number is a row of the input");
            if j + 1 < kept { assert!(!C::cmp(all[out[j + 1]], all[out[j]]), "[in-order] the returned rows are in the requested order"); }
            for k in 0..kept { assert!(j == k || out[j] != out[k], "[rows-distinct] no row is returned twice"); }
        }
        for p in 0..len {
            let mut is_kept = false;
            for j in 0..kept { if out[j] == p { is_kept = true; } }
            if !is_kept && kept > 0 { assert!(!C::cmp(all[p], all[out[kept - 1]]), "[dropped-not-better] a row that is not returned does not sort strictly before the last returned row"); }
        }
    }
    #[kani::proof]
    #[kani::unwind(7)]
    fn execute_then_finalize_limit2_four_rows_asc() { run_final::<CmpLessThan>(2, 4); }
    #[kani::proof]
    #[kani::unwind(7)]
    fn execute_then_finalize_limit3_three_rows_desc() { run_final::<CmpGreaterThan>(3, 3); }
    #[kani::proof]
    fn vx_canary() {
        let x: u8 = kani::any();
        assert!(x < 200, "[canary] must fail");
    }
} // mod proofs
