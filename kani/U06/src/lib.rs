// U06 (Kani, BOUNDED): comparisons of a dictionary-encoded string column with a string constant, evaluated on
// dictionary indices after the constant was translated by InverseDictLookup (C03: "independent of ... strings absent
// from the dictionary").  Real code: InverseDictLookup::execute (R6) and comparison_operators.rs (whole file).
// Bound: dictionaries of exactly 3 sorted distinct entries of <= 1 ASCII byte, constants of <= 1 byte.
#![allow(dead_code, unused_imports, unused_macros)]
#[macro_use]
pub mod shim { include!("../common_shim.rs"); }
pub use shim::QueryError;
pub mod engine {
    pub type of64 = ordered_float::OrderedFloat<f64>;
    pub mod data_types {
        pub trait GenericIntVec<T> {}
        impl GenericIntVec<u8> for u8 {}
        impl GenericIntVec<u16> for u16 {}
        impl GenericIntVec<u32> for u32 {}
        impl GenericIntVec<i64> for i64 {}
    }
    pub mod operators {
        pub mod binary_operator { include!("binary_operator_traits.rs"); }
        #[path = "@REPO@/src/engine/operators/comparison_operators.rs"]
        pub mod comparison_operators;
    }
}
include!("lookup.rs");
include!("registry.rs");

#[cfg(kani)]
mod proofs {
    use super::*;
    use super::engine::operators::binary_operator::*;
    use super::engine::operators::comparison_operators::*;

    struct Dict { data: [u8; 3], idx: [u64; 3], lens: [usize; 3] }
    // three sorted, distinct entries, each the empty string or one ASCII byte
    fn any_dict() -> Dict {
        let b: [u8; 3] = kani::any();
        let lens: [usize; 3] = [kani::any(), kani::any(), kani::any()];
        kani::assume(b[0] < 128 && b[1] < 128 && b[2] < 128 && lens[0] <= 1 && lens[1] <= 1 && lens[2] <= 1);
        let mut data = [0u8; 3];
        let mut idx = [0u64; 3];
        let mut off = 0usize;
        for i in 0..3 {
            idx[i] = ((off as u64) << 24) + lens[i] as u64;
            if lens[i] == 1 { data[off] = b[i]; off += 1; }
        }
        Dict { data, idx, lens }
    }
    fn entry<'a>(d: &'a Dict, i: usize) -> &'a [u8] {
        let off = (d.idx[i] >> 24) as usize;
        &d.data[off..off + d.lens[i]]
    }

    macro_rules! cmp_harness {
        ($name:ident, $flag:ident, $assertion:expr) => {
            #[kani::proof]
            #[kani::unwind(5)]
            fn $name() {
                let d = any_dict();
                kani::assume(entry(&d, 0) < entry(&d, 1) && entry(&d, 1) < entry(&d, 2)); // dictionary is sorted, distinct
                let cb: u8 = kani::any();
                let clen: usize = kani::any();
                kani::assume(cb < 128 && clen <= 1);
                let cbuf = [cb];
                let c: &str = unsafe { std::str::from_utf8_unchecked(&cbuf[..clen]) };
                let enc = inverse_dict_lookup(c, &d.idx, &d.data).unwrap();
                let i: u8 = kani::any();
                kani::assume(i < 3);
                let e = entry(&d, i as usize);
                let cc = c.as_bytes();
                kani::cover!(enc == -1, "vacuity: constant absent from the dictionary");
                kani::cover!(enc >= 0, "vacuity: constant present in the dictionary");
                // obligation only if the planner evaluates this operator on dictionary indices (registry scan)
                if $flag > 0 {
                    let f: fn(u8, i64, &[u8], &[u8]) = $assertion;
                    f(i, enc, e, cc);
                }
            }
        };
    }
    cmp_harness!(str_eq, STR_EQ_ON_INDICES, |i, enc, e, cc| assert!(<Equals as BinaryOp<u8, i64, u8>>::perform(i, enc) == (e == cc) as u8, "[eq] col = const on indices equals the string comparison"));
    cmp_harness!(str_ne, STR_NE_ON_INDICES, |i, enc, e, cc| assert!(<NotEquals as BinaryOp<u8, i64, u8>>::perform(i, enc) == (e != cc) as u8, "[ne] col <> const on indices equals the string comparison"));
    cmp_harness!(str_lt, STR_LT_ON_INDICES, |i, enc, e, cc| assert!(<LessThan as BinaryOp<u8, i64, u8>>::perform(i, enc) == (e < cc) as u8, "[lt] col < const on indices equals the string comparison"));
    cmp_harness!(str_le, STR_LE_ON_INDICES, |i, enc, e, cc| assert!(<LessThanEquals as BinaryOp<u8, i64, u8>>::perform(i, enc) == (e <= cc) as u8, "[le] col <= const on indices equals the string comparison"));
    cmp_harness!(str_gt, STR_GT_ON_INDICES, |i, enc, e, cc| assert!(<LessThan as BinaryOp<i64, u8, u8>>::perform(enc, i) == (cc < e) as u8, "[gt] col > const on indices equals the string comparison"));
    cmp_harness!(str_ge, STR_GE_ON_INDICES, |i, enc, e, cc| assert!(<LessThanEquals as BinaryOp<i64, u8, u8>>::perform(enc, i) == (cc <= e) as u8, "[ge] col >= const on indices equals the string comparison"));

    #[kani::proof]
    fn vx_canary() {
        let x: u8 = kani::any();
        assert!(x < 200, "[canary] must fail");
    }
} // mod proofs
