// U05 (Kani, complete): constant translation into the encoding domain (Codec::encode_int / encode_float) composed
// with the real comparison kernels: comparing an offset-encoded column with a constant gives the same answer
// as comparing the decoded values -- for EVERY constant, inside or outside the column's range (C03).
#![allow(dead_code, unused_imports)]
pub mod engine {
    pub type of64 = ordered_float::OrderedFloat<f64>;
    pub mod data_types {
        pub trait GenericIntVec<T> {}
        impl GenericIntVec<u8> for u8 {}
        impl GenericIntVec<u16> for u16 {}
        impl GenericIntVec<u32> for u32 {}
        impl GenericIntVec<i64> for i64 {}
    }
    pub mod operators {
        pub mod binary_operator {
            include!("binary_operator_traits.rs");
        }
        #[path = "@REPO@/src/engine/operators/comparison_operators.rs"]
        pub mod comparison_operators;
    }
}
pub mod codec {
    include!("codec.rs");
}

#[cfg(kani)]
mod proofs {
    use super::codec::*;
    use super::engine::of64;
    use super::engine::operators::binary_operator::*;
    use super::engine::operators::comparison_operators::*;

    fn any_narrow() -> EncodingType {
        let k: u8 = kani::any();
        kani::assume(k < 3);
        match k { 0 => EncodingType::U8, 1 => EncodingType::U16, _ => EncodingType::U32 }
    }

    // decoded value of stored v under Add(t, y) is v + y (U04 proves the decoder computes exactly that)
    macro_rules! offset_cmp {
        ($name:ident, $t:ty) => {
            #[kani::proof]
            fn $name() {
                let v: $t = kani::any();
                let y: i64 = kani::any();
                let x: i64 = kani::any();
                let codec = Codec { ops: vec![CodecOp::Add(any_narrow(), y)] };
                let c = codec.encode_int(x);
                let (dec, xx) = (v as i128 + y as i128, x as i128);
                kani::cover!(x < y, "vacuity: constant below the column's encodable range");
                kani::cover!(x as i128 > y as i128 + <$t>::MAX as i128, "vacuity: constant above the column's encodable range");
                assert!(<LessThan as BinaryOp<$t, i64, u8>>::perform(v, c) == (dec < xx) as u8, "[lt-col-const] col < const on encoded data equals decoded comparison");
                assert!(<LessThanEquals as BinaryOp<$t, i64, u8>>::perform(v, c) == (dec <= xx) as u8, "[le-col-const] col <= const");
                assert!(<Equals as BinaryOp<$t, i64, u8>>::perform(v, c) == (dec == xx) as u8, "[eq-col-const] col = const");
                assert!(<NotEquals as BinaryOp<$t, i64, u8>>::perform(v, c) == (dec != xx) as u8, "[ne-col-const] col <> const");
                assert!(<LessThan as BinaryOp<i64, $t, u8>>::perform(c, v) == (xx < dec) as u8, "[lt-const-col] const < col (used for col > const)");
                assert!(<LessThanEquals as BinaryOp<i64, $t, u8>>::perform(c, v) == (xx <= dec) as u8, "[le-const-col] const <= col (used for col >= const)");
            }
        };
    }
    offset_cmp!(offset_cmp_u8, u8);
    offset_cmp!(offset_cmp_u16, u16);
    offset_cmp!(offset_cmp_u32, u32);

    #[kani::proof]
    fn toi64_identity() {
        let x: i64 = kani::any();
        let codec = Codec { ops: vec![CodecOp::ToI64(any_narrow())] };
        assert!(codec.encode_int(x) == x, "[toi64-int] a widening-only codec leaves the constant unchanged");
        let f: f64 = kani::any();
        kani::assume(!f.is_nan());
        assert!(codec.encode_float(f) == f, "[toi64-float] a widening-only codec leaves the float constant unchanged");
    }

    // float constant against an offset-encoded integer column; the column is cast to f64 before comparing.
    // Exactness domain (assumption A-float-exact): |offset| <= 2^20, constant = k / 4 with |constant| <= 2^20, stored value u16.
    #[kani::proof]
    fn offset_cmp_float() {
        let v: u16 = kani::any();
        let y: i64 = kani::any();
        kani::assume(y >= -(1i64 << 20) && y <= (1i64 << 20));
        let k: i32 = kani::any();
        kani::assume(k >= -(1i32 << 22) && k <= (1i32 << 22));
        let x: f64 = k as f64 / 4.0;
        let codec = Codec { ops: vec![CodecOp::Add(any_narrow(), y)] };
        let c = codec.encode_float(x);
        let dec = (v as i64 + y) as f64; // exact: |v + y| < 2^53
        let enc = v as f64;
        kani::cover!(k % 4 != 0, "vacuity: constant with a fractional part");
        assert!((enc < c) == (dec < x), "[lt-float-const] col < float const on encoded data equals decoded comparison");
        assert!((enc <= c) == (dec <= x), "[le-float-const] col <= float const");
        assert!((enc == c) == (dec == x), "[eq-float-const] col = float const");
        assert!((c < enc) == (x < dec), "[gt-float-const] col > float const");
        assert!((c <= enc) == (x <= dec), "[ge-float-const] col >= float const");
    }

    #[kani::proof]
    fn vx_canary() {
        let x: u8 = kani::any();
        assert!(x < 200, "[canary] must fail");
    }
} // mod proofs
