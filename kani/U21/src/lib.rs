// U21 (Kani, BOUNDED in literal length): numeric literals of LIMIT / OFFSET - conversion arms of parser::get_limit /
// get_offset (expression slices).  C12: "for any text passed as a query the call returns an error value or a result,
// never a panic in the caller".  Bound: literal strings of at most 4 characters over 0-9 . e -  (sqlparser's
// Value::Number carries the literal as a String; it accepts fractions and exponents).
#![allow(dead_code, unused_imports, unused_macros)]
#[macro_use]
pub mod shim { include!("../common_shim.rs"); }
pub use shim::QueryError;
// R10: sqlparser::ast::Statement reduced to "a query" (payload irrelevant here) / "any other statement"
pub enum Statement { Query(Box<u8>), Other }
include!("literals.rs");

#[cfg(kani)]
mod proofs {
    use super::*;

    fn any_literal() -> String {
        let n: usize = kani::any();
        kani::assume(n >= 1 && n <= 4);
        let k: [u8; 4] = kani::any();
        kani::assume(k[0] < 13 && k[1] < 13 && k[2] < 13 && k[3] < 13);
        let ch = |d: u8| match d { 10 => b'.', 11 => b'e', 12 => b'-', d => b'0' + d };
        let b = [ch(k[0]), ch(k[1]), ch(k[2]), ch(k[3])];
        unsafe { String::from_utf8_unchecked(b[..n].to_vec()) } // ASCII by construction
    }
    fn stub_format(_: core::fmt::Arguments<'_>) -> String { String::new() }

    #[kani::proof]
    #[kani::stub(alloc::fmt::format, stub_format)]
    #[kani::unwind(6)]
    fn limit_never_panics() {
        let s = any_literal();
        let plain_digits = s.bytes().all(|b| b.is_ascii_digit());
        let r = limit_literal(s);
        kani::cover!(r.is_ok(), "vacuity: a literal is accepted");
        kani::cover!(!plain_digits, "vacuity: a non-integer literal is generated");
        assert!(r.is_ok() == plain_digits, "[limit-integer-or-error] LIMIT accepts exactly the unsigned integer literals; anything else is an error value, not a panic");
    }

    #[kani::proof]
    #[kani::stub(alloc::fmt::format, stub_format)]
    #[kani::unwind(6)]
    fn offset_never_panics() {
        let s = any_literal();
        let plain_digits = s.bytes().all(|b| b.is_ascii_digit());
        let r = offset_literal(s);
        assert!(r.is_ok() == plain_digits, "[offset-integer-or-error] OFFSET accepts exactly the unsigned integer literals; anything else is an error value, not a panic");
    }

    // zero, one or two parsed statements (an empty query text or a lone `;` parses to zero statements)
    #[kani::proof]
    #[kani::stub(alloc::fmt::format, stub_format)]
    #[kani::unwind(4)]
    fn statement_count_never_panics() {
        let n: u8 = kani::any();
        kani::assume(n <= 2);
        let mk = |q: bool| if q { Statement::Query(Box::new(0)) } else { Statement::Other };
        let (q0, q1): (bool, bool) = (kani::any(), kani::any());
        let ast = match n { 0 => vec![], 1 => vec![mk(q0)], _ => vec![mk(q0), mk(q1)] };
        let r = single_query(ast);
        assert!(r.is_ok() == (n == 1 && q0), "[one-select-or-error] exactly one SELECT statement is accepted; no statement, several statements or another statement give an error value, not a panic");
    }
    #[kani::proof]
    fn vx_canary() {
        let x: u8 = kani::any();
        assert!(x < 200, "[canary] must fail");
    }
} // mod proofs
