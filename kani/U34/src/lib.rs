// U34 (native, BOUNDED exhaustive enumeration - not a proof): compile_expr's translation of a LIKE pattern into a regular
// expression (statement slice of the real code, compiled natively against the real `regex` crate, which is beyond CBMC and
// Verus) against the SQL meaning of LIKE: `%` matches any sequence of characters, `_` exactly one character, every other
// character itself.  Patterns with adjacent `%` or a backslash are left out (LocustDB's own escape conventions).
#![allow(dead_code, unused_mut, unused_variables)]
use regex::Regex;
include!("like.rs");

// reference semantics of LIKE (C03: "WHERE keeps exactly the rows for which the predicate is true")
pub fn like_matches(p: &[char], s: &[char]) -> bool {
    if p.is_empty() { return s.is_empty(); }
    match p[0] {
        '%' => (0..=s.len()).any(|k| like_matches(&p[1..], &s[k..])),
        '_' => !s.is_empty() && like_matches(&p[1..], &s[1..]),
        c => !s.is_empty() && s[0] == c && like_matches(&p[1..], &s[1..]),
    }
}

fn words(alphabet: &[char], max_len: usize) -> Vec<Vec<char>> {
    let mut all: Vec<Vec<char>> = vec![vec![]];
    let mut last: Vec<Vec<char>> = vec![vec![]];
    for _ in 0..max_len {
        let mut next = Vec::new();
        for w in &last { for &c in alphabet { let mut v = w.clone(); v.push(c); next.push(v); } }
        all.extend(next.iter().cloned());
        last = next;
    }
    all
}

pub fn search(_seed: u64, max_pattern: usize, max_subject: usize) -> Option<String> {
    let patterns = words(&['a', 'b', '.', '%', '_'], max_pattern);
    let subjects = words(&['a', 'b', '.', '%', '_'], max_subject);
    for p in patterns.iter() {
        if p.windows(2).any(|w| w[0] == '%' && w[1] == '%') { continue; }
        let ps: String = p.iter().collect();
        let re_text = like_to_regex(&ps);
        let re = match Regex::new(&re_text) {
            Ok(re) => re,
            Err(_) => return Some(format!("like-regex-compiles: LIKE '{}' is translated to '{}', which is not a regular expression", ps, re_text)),
        };
        for s in subjects.iter() {
            let ss: String = s.iter().collect();
            let want = like_matches(p, s);
            if re.is_match(&ss) != want {
                return Some(format!("like-matches-as-sql: '{}' LIKE '{}' should be {} but the translated regex '{}' gives {}", ss, ps, want, re_text, !want));
            }
        }
    }
    // second pool: every printable ASCII character (and two non-ASCII ones) as a literal, in eight pattern shapes,
    // against every subject of length <= 3 over {a, b, that character}
    let mut literals: Vec<char> = (0x20u8..0x7f).map(|b| b as char).filter(|c| !['%', '_', '\\'].contains(c)).collect();
    literals.push('\u{e9}');
    literals.push('\u{3bb}');
    for &c in literals.iter() {
        let shapes: [Vec<char>; 8] = [vec![c], vec!['a', c], vec![c, 'a'], vec!['a', c, 'b'], vec![c, c], vec!['%', c], vec![c, '%'], vec!['_', c]];
        let subjects = words(&['a', 'b', c], 3);
        for p in shapes.iter() {
            let ps: String = p.iter().collect();
            let re_text = like_to_regex(&ps);
            let re = match Regex::new(&re_text) {
                Ok(re) => re,
                Err(_) => return Some(format!("like-regex-compiles: LIKE '{}' is translated to '{}', which is not a regular expression", ps, re_text)),
            };
            for s in subjects.iter() {
                let ss: String = s.iter().collect();
                let want = like_matches(p, s);
                if re.is_match(&ss) != want {
                    return Some(format!("like-literal-matches-itself: '{}' LIKE '{}' should be {} but the translated regex '{}' gives {}", ss, ps, want, re_text, !want));
                }
            }
        }
    }
    None
}
