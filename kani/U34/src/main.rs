// native enumeration driver; prints "WITNESS <text>" and exits 1 when a failing input exists
fn main() {
    let seed: u64 = std::env::args().nth(1).and_then(|s| s.parse().ok()).unwrap_or(0);
    let thorough = std::env::var("VERIF_TIER").map(|t| t == "thorough").unwrap_or(false);
    let (mp, ms) = if thorough { (5, 5) } else { (4, 4) };
    match vx_u34::search(seed, mp, ms) {
        Some(w) => { println!("WITNESS {}", w); std::process::exit(1); }
        None => println!("NO-WITNESS (all patterns of length <= {} over {{a, b, ., %, _}} against all subjects of length <= {})", mp, ms),
    }
}
