// vx prelude: shims used by the rewrite rules (R2, R4). Every exec fn here is verified, none is trusted.
pub fn vx_panic() -> !
    requires false,
{
    loop invariant false, decreases 0int { }
}

pub fn vx_min(a: usize, b: usize) -> (r: usize)
    ensures r == (if a <= b { a } else { b }),
{
    if a <= b { a } else { b }
}

pub fn vx_max(a: usize, b: usize) -> (r: usize)
    ensures r == (if a >= b { a } else { b }),
{
    if a >= b { a } else { b }
}

pub fn vx_min_i64(a: i64, b: i64) -> (r: i64)
    ensures r == (if a <= b { a } else { b }),
{
    if a <= b { a } else { b }
}

pub fn vx_max_i64(a: i64, b: i64) -> (r: i64)
    ensures r == (if a >= b { a } else { b }),
{
    if a >= b { a } else { b }
}

// R4: Vec::resize(len, value) for Copy element types, growing case (verified replacement; vstd's spec goes through Clone)
pub fn vx_resize<V: Copy>(v: &mut Vec<V>, len: usize, value: V)
    requires len >= old(v)@.len(),
    ensures
        final(v)@.len() == len,
        forall|i: int| 0 <= i < old(v)@.len() ==> final(v)@[i] == old(v)@[i],
        forall|i: int| old(v)@.len() <= i < len ==> final(v)@[i] == value,
{
    while v.len() < len
        invariant
            old(v)@.len() <= v@.len() <= len,
            forall|i: int| 0 <= i < old(v)@.len() ==> v@[i] == old(v)@[i],
            forall|i: int| old(v)@.len() <= i < v@.len() ==> v@[i] == value,
        decreases len - v.len(),
    {
        v.push(value);
    }
}

pub fn vx_max_u32(a: u32, b: u32) -> (r: u32)
    ensures r == (if a >= b { a } else { b }),
{
    if a >= b { a } else { b }
}
