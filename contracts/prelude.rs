// vx prelude: shims used by the rewrite rules (R2, R4). Every exec fn here is verified, none is trusted.
pub fn vx_panic() -> !
    requires false,
{
    loop invariant false, decreases 0int { }
}

pub fn vx_min(a: usize, b: usize) -> (r: usize)
    ensures r == (if a <= b { a } else { b }),
{
    if a <= b { a } else { b }
}

pub fn vx_max(a: usize, b: usize) -> (r: usize)
    ensures r == (if a >= b { a } else { b }),
{
    if a >= b { a } else { b }
}

pub fn vx_min_i64(a: i64, b: i64) -> (r: i64)
    ensures r == (if a <= b { a } else { b }),
{
    if a <= b { a } else { b }
}

pub fn vx_max_i64(a: i64, b: i64) -> (r: i64)
    ensures r == (if a >= b { a } else { b }),
{
    if a >= b { a } else { b }
}
