"""Registry: units under contract and the property -> unit map (DESIGN.md sections 3 and 4)."""

TRUSTED_TOOLS = [
    'Verus 0.2026.09.13 + vstd specs (Vec, slice, Option, integer ops) + bundled Z3',
    'Kani 0.68 / CBMC 6.11 + solver named per harness',
    'rustc 1.98.1 (Verus front end), Kani nightly-2026-08-21',
    'vx extractor (python): item lookup by path, declared rewrite rules, erasure check ties generated text to /repo',
    'machine arithmetic: any overflow is a failed obligation (debug/test-profile semantics)',
]

_T4 = ['u8', 'u16', 'u32', 'i64']


def _pairs(prefix, solver, clause, quick=('i64_i64', 'u8_i64', 'i64_u32', 'u32_u16')):
    hs = []
    for a in _T4:
        for b in _T4:
            n = '%s_%s_%s' % (prefix, a, b)
            hs.append(dict(name='proofs::' + n, solver=solver, clause=clause, fn='%s<%s,%s>::perform_checked' % (prefix, a, b),
                           thorough_only=('%s_%s' % (a, b)) not in quick))
    return hs


UNITS = {
    'U08k': dict(kind='kani', crate='kani/U08', needs_lock=True,
                 title='numeric_operators.rs: CheckedBinaryOp::perform_checked for + - * / % over {u8,u16,u32,i64}^2 (complete: loop-free, full operand domain)',
                 path_includes=['src/engine/operators/numeric_operators.rs'],
                 harnesses=_pairs('add', 'cadical', 'no panic; !flag ==> v == l + r in Z; flag <==> l + r does not fit i64')
                 + _pairs('sub', 'cadical', 'no panic; !flag ==> v == l - r in Z; flag <==> l - r does not fit i64')
                 + _pairs('mul', 'z3', 'no panic; !flag ==> Some(v) == checked_mul(l, r); flag <==> checked_mul(l, r) is None')
                 + _pairs('div', 'z3', 'no panic; r == 0 ==> flag; !flag ==> v == l / r (truncated); flag ==> r == 0 or quotient does not fit or equals the NULL marker')
                 + _pairs('mod', 'z3', 'no panic; r == 0 <==> flag; !flag ==> v == l rem r')
                 + [dict(name='proofs::vx_canary', solver='cadical', expect_fail=True)],
                 assumptions=['num::ToPrimitive::to_i64 is compiled and executed symbolically by CBMC (not assumed)'],
                 not_covered=['Multiplication<_,_,OrderedFloat<f64>> (floating point)']),
    'U01': dict(kind='verus', tpl='contracts/U01_bitvec.vx',
                title='src/bitvec.rs: BitVecMut::{set,unset}, BitVec::is_set (Vec<u8>, [u8])',
                assumptions=[], not_covered=[]),
}

UNITS['U02'] = dict(
    kind='verus', tpl='contracts/U02_column_buffer.vx', fallback='U02w',
    title='mem_store/column_buffer.rs: ColumnBuffer::{null,len,push_val,push_ints,push_floats,push_strings,push_nulls,push_present,init_present}, IntColBuffer::{default,push}, FloatColBuffer::push, MixedColBuffer::push; ingest/buffer.rs: per-column bodies of Buffer::push_typed_cols and Buffer::extend_to_largest (slices); IntColBuffer::finalize delta decision and MixedColBuffer::finalize row loop (slices); scheduler/inner_locustdb.rs compaction: append of a decoded column to the rebuilt column (slice)',
    assumptions=['R8: iterator parameters (impl IntoIterator) monomorphised to slices; all call sites pass arrays, Vecs or slice iterators',
                 'R9 shims (external_body, assumed length specs): StringColBuffer (opaque; its string packing is U03), '
                 'vx_mixed_from_strings / vx_mixed_from_data (iterator-adapter conversions into MixedColBuffer), vx_i64_to_f64, vx_to_string',
                 'payload of float / string / mixed rows is opaque here: only row count, NULL-ness and the integer payload are views',
                 'A-wire-wf: sparse (index, value) lists have strictly increasing indices below the row count (established by the row API, not by the wire decoder)',
                 'A-hashmap: the HashMap iteration around the per-column slices of ingest/buffer.rs is not verified (each column is handled independently)',
                 'R10: in the compaction slice `decoded: BoxedData` is a typed view (external_body accessors get_type / len / cast_ref_* with uninterpreted views)'],
    not_covered=['ColumnBuffer::finalize and the *ColBuffer::finalize functions (Arc<Column> construction; integer part in U04)',
                 'is_lowercase_hex / is_uppercase_hex (char iterators)'])

UNITS['U10'] = dict(
    kind='verus', tpl='contracts/U10_merge.vx', timeout_s=600,
    title='merge family: merge, merge_keep, merge_keep_nullable, merge_drop, merge_deduplicate (generic over T and C: Comparator<T>) + trait Comparator',
    assumptions=['assumed contract of a comparator (trait Comparator: le is a total preorder; cmp_eq == le; cmp == strict part) - discharged for every real impl by U12k',
                 'A-eq: PartialEq on element types is structural equality (vx_last_eq shim, external_body)',
                 'R5: `T: VecData<T>` bound replaced by `T: Copy` (only Copy is used by these functions)'],
    not_covered=['merge_deduplicate: strict sortedness of the result (ops structure, provenance and duplicate detection are proved)',
                 'merge_partitioned, merge_deduplicate_partitioned, partition, subpartition'])

UNITS['U11'] = dict(
    kind='verus', tpl='contracts/U11_topn.vx',
    title='top_n.rs: heap_replace (sift-down of the bounded heap behind ORDER BY ... LIMIT n)',
    assumptions=['assumed contract of a comparator (trait Comparator) - discharged for every real impl by U12k',
                 'heaps hold fewer than usize::MAX/2 - 2 elements (index arithmetic 2*node+2)'],
    not_covered=['multiset preservation of (key, value) pairs by heap_replace', 'TopN::execute / finalize (sort_unstable_by closures)'])

UNITS['U08v'] = dict(
    kind='verus', tpl='contracts/U08v_binops.vx',
    title='binary_operator.rs: execute() of Binary{,VS,SV}Operator, CheckedBinary{,VS,SV}Operator, NullableCheckedBinary{,VS,SV}Operator (generic over Op)',
    assumptions=['R6: scratchpad bindings lifted to parameters; Scratchpad aliasing discipline (distinct BufferRefs do not alias) is assumed (A-planner)',
                 'R11: zip/enumerate loop headers desugared to index loops over min(len); R15: `b |= e` on bools rewritten to `b = b || (e)`',
                 'assumed contract of an operator kernel (traits BinaryOp / CheckedBinaryOp with spec functions) - instantiated by U08k/U07k harnesses over the real kernels'],
    not_covered=['init()/inputs()/outputs() plumbing of the operators'])

UNITS['U09v'] = dict(
    kind='verus', tpl='contracts/U09v_aggregate.vx',
    title='aggregate.rs: execute() of Aggregate, AggregateNullable, CheckedAggregate, CheckedAggregateNullable (generic over the aggregator and the grouping-key type)',
    assumptions=['R6: scratchpad bindings lifted to parameters (A-planner: distinct BufferRefs do not alias)',
                 'R5: grouping key type abstracted to trait GroupIndex { cast_usize }; R4: Vec::resize replaced by verified vx_resize / vx_resize_bitmap (growing case)',
                 'assumed contracts of Aggregator / CheckedAggregator kernels (spec_unit, spec_acc, spec_acc_checked) - the real kernels are proved in U09k',
                 'precondition grouping[i] <= max_index is established by the planner (not checked here)'],
    not_covered=[])

UNITS['U09m'] = dict(
    kind='verus', tpl='contracts/U09m_merge_aggregate.vx',
    title='merge_aggregate.rs: merge_aggregate (generic over T: Combinable<T>) against a recursive spec incl. error propagation',
    assumptions=['assumed contract of Combinable::combine (spec_combine) - the real i64 implementation is proved in U09k',
                 'R9: slice::to_vec replaced by verified vx_to_vec; R3: error! logging dropped',
                 'ops well-formedness (indices in range, MergeRight never first) is what merge_deduplicate guarantees (U10 consumes-all / merge-right-is-duplicate)'],
    not_covered=['Combinable<OrderedFloat<f64>> (floating point)'])

UNITS['U19'] = dict(
    kind='verus', tpl='contracts/U19_select.vx', timeout_s=600, fallback='U19b',
    title='row-selection kernels: NullVecLike non-null count (slice), Filter, NullableFilter, FilterNullable, NullableFilterNullable, IsNull, IsNotNull, Compact, CompactWithNullable, CompactNullable, CompactNullableNullable, NonzeroCompact, NonzeroCompactNullable, Exists (execute bodies)',
    assumptions=['R6: scratchpad bindings lifted to parameters (A-planner: distinct BufferRefs do not alias)',
                 'R5: `x > T::zero()` on the planner\'s integer types abstracted to trait Pos { is_pos }, cast_usize to trait GroupIndex',
                 'R4/R9 verified replacements: vx_resize, vx_zero_bytes (for p in iter_mut { *p = 0 }), vx_div_ceil8',
                 'FilterNullable*: the output null map has no stray bits beyond the current output length (established by init / previous calls; stated as requires and re-established as ensures)'],
    not_covered=['NonzeroIndices (generic numeric conversions U::from(index) + offset)', 'combine_null_maps', 'LIKE / regex filters'])

UNITS['U26'] = dict(
    kind='verus', tpl='contracts/U26_sort_by.vx', timeout_s=300,
    title='sort_by.rs: SortBy::execute / SortByNullable::execute sort statements (slices) against assumed contracts of std sort_by (stable) and sort_unstable_by (not stable): sorted permutation in ORDER BY order with NULLs last (first when descending); ties keep their previous order when `stable` is set',
    assumptions=['A-std-sort: <[T]>::sort_by returns a stable sorted permutation, <[T]>::sort_unstable_by a sorted permutation (assume_specification, from the std documentation; comparator consistent with a total order)',
                 'R6: scratchpad bindings (ranking, present, indices) and self.stable lifted to parameters',
                 'R17: the comparator closures get parameter types and a requires/ensures annotation (rows in range; result == row_ord); closure bodies are the real ones',
                 'trait Comparator: ordering() == spec ord(), is_less_than() == spec asc(); the per-type impls are covered by U12k'],
    not_covered=['NormalFormQuery::run: which sorts are requested as stable and in which key order', 'TopN', 'consistency of ord() with a total order (U12k per type)'])

UNITS['U19b'] = dict(
    kind='kani', crate='kani/U19b', timeout_s=600, mem_gb=8,
    title='BOUNDED fallback for the NullVecLike slice of U19 (runs when U19 is undecided, e.g. the arm was rewritten with iterator adapters, and in the thorough tier): NonNullElementCount arm over filters of up to 10 rows',
    harnesses=[dict(name='proofs::counts_true_and_present_rows', bounded='filters of <= 10 rows, any bytes, any presence bitmap, unwind 12', unwind=12, clause='count == number of rows with byte != 0 and present bit set', fn='NullVecLike::execute[slice NonNullElementCount]'),
               dict(name='proofs::counts_true_and_present_rows_18', thorough_only=True, bounded='filters of <= 18 rows, unwind 20 (thorough tier)', unwind=20, clause='count == number of rows with byte != 0 and present bit set', fn='NullVecLike::execute[slice NonNullElementCount]'),
               dict(name='proofs::vx_canary', expect_fail=True)],
    assumptions=['stand-ins: Scratchpad::get_nullable hands out (data, present); the operator input handle is a unit value'],
    not_covered=['filters longer than 10 rows'])

UNITS['U29'] = dict(
    kind='verus', tpl='contracts/U29_partition.vx', timeout_s=600,
    title='multi-key merge kernels partition -> subpartition -> merge_partitioned / merge_deduplicate_partitioned: groups stay inside the inputs and are runs of one key; subpartition refines without crossing group boundaries; the merges consume every group row exactly once, in order, with the recorded ops describing where each output row comes from',
    assumptions=['A-rows-u32: the two inputs together have at most u32::MAX rows (Premerge counts are u32; the code would overflow beyond)',
                 'A-eq: T::obeys_eq_spec() and == is reflexive on T (true for the integer, string, OrderedFloat and Val keys the planner instantiates; a NaN-like key would make partition loop forever)',
                 'R5: bound `T: VecData<T>` reduced to `Copy + PartialEq`; R4: cmp::max on u32 replaced by verified vx_max_u32'],
    not_covered=['that group values come out in merge order and that merge_partitioned output is sorted within a group (needs consistency of == with the comparator and sortedness of the inputs inside groups)', 'the operator structs around the kernels (scratchpad plumbing)'])

UNITS['U33'] = dict(
    kind='verus', tpl='contracts/U33_fuse_nulls.vx', timeout_s=300,
    title='fuse_nulls.rs: FuseNullsI64::execute, UnfuseNullsI64 presence bitmap (slice), FuseIntNulls<i64>::execute, UnfuseIntNulls<i64>::execute: a NULL row becomes the reserved value I64_NULL (sort keys) resp. 0 after shifting the values to >= 1 (grouping keys), and back',
    assumptions=['R6: scratchpad bindings lifted to parameters', 'R4: vec![0u8; n] replaced by verified vx_zeroed, bitmap resize by verified vx_resize_bitmap', 'R5: FuseIntNulls<T> / UnfuseIntNulls<T> instantiated at T = i64 (T::zero() -> 0i64)',
                 'A-reserved: i64::MAX is not part of the value domain (property C01 states it as reserved)', 'precondition of FuseIntNulls: every shifted value is >= 1 and fits (established by the planner: offset = 1 - min, U31k)'],
    not_covered=['FuseNullsStr / FuseNullsF64', 'the u8 / u16 / u32 instances of FuseIntNulls / UnfuseIntNulls (same body, narrower arithmetic)'])

UNITS['U36'] = dict(
    kind='verus', tpl='contracts/U36_select.vx', timeout_s=300,
    title='select.rs: Select::execute, SelectNullable::execute - output row k is input row indices[k], NULL exactly where that input row is NULL',
    assumptions=['R6: scratchpad bindings lifted to parameters; R11: iterator headers desugared', 'SelectNullable: called on a fresh output (streaming, or once) - execute numbers the presence bits from 0'],
    not_covered=['that the index list is in range (established by its producers: U26 permutation, U35k recorded rows, filters)'])

UNITS['U03'] = dict(
    kind='verus', tpl='contracts/U03_stringpack.vx',
    title='stringpack.rs: PackedStrings::push, StringPackerIterator::next, PackedBytesIterator::{has_more,next}, IndexedPackedStrings::{push,len} + round-trip lemma',
    assumptions=['R7: &str handled as its bytes; A-utf8: the from_utf8_unchecked calls are dropped (UTF-8 validity of decoded slices not proved)',
                 'A-strlen: IndexedPackedStrings::push requires string length < 2^24 and dictionary size < 2^40 (the source\'s own TODO(34)); no caller establishes it',
                 'R9: Vec::extend_from_slice replaced by verified vx_extend; slice indexing by a range replaced by vstd slice_subrange',
                 'usize is 64 bits (global size_of usize == 8)'],
    not_covered=['PackedStrings::from_iterator / PackedBytes::from_iterator (iterator parameters)', 'IndexedPackedStrings::iter (closure over map)', 'DictLookup::execute decode loop'])

UNITS['U04v'] = dict(
    kind='verus', tpl='contracts/U04v_integers.vx',
    title='integers.rs: IntegerColumn::encode<T>, delta transform of new_boxed (slice); delta_decode.rs: DeltaDecode::execute; delta round-trip lemma',
    assumptions=['R5: narrow storage types abstracted to trait Narrow { from, to_i64 } (num::NumCast / ToPrimitive on u8/u16/u32)',
                 'R11: `for curr in &mut values[1..]` desugared to an index loop with `let curr = &mut values[k]`; R6 for DeltaDecode::execute',
                 'delta transform requires consecutive differences to fit i64 - what IntColBuffer.allow_delta_encode is meant to guarantee'],
    not_covered=['IntegerColumn::create_col (codec op lists; Column construction)', 'free fn column::decode (stack machine over dyn Data) - see U04d'])

UNITS['U09k'] = dict(
    kind='kani', crate='kani/U09', needs_lock=True,
    title='aggregate.rs / merge_aggregate.rs: SumI64, Count, MaxI64, MinI64 accumulate/combine and Combinable<i64>::combine (complete)',
    harnesses=[dict(name='proofs::sum_accumulate_checked_%s' % t, clause='flag <==> acc + v does not fit i64; !flag ==> exact', fn='SumI64::accumulate_checked<%s>' % t) for t in _T4]
    + [dict(name='proofs::sum_combine_checked', clause='flag <==> a + b does not fit; !flag ==> exact', fn='SumI64::combine_checked'),
       dict(name='proofs::sum_unit_is_zero', clause='units of SUM/COUNT/MAX/MIN', fn='Aggregator::unit'),
       dict(name='proofs::count_accumulate', clause='COUNT adds one per row', fn='Count::accumulate'),
       dict(name='proofs::max_min_lattice', clause='MAX/MIN accumulate and combine return the larger/smaller operand', fn='MaxI64/MinI64'),
       dict(name='proofs::combine_i64', clause='NULL side contributes nothing; SUM/COUNT exact or Err(Overflow); MAX/MIN lattice; float aggregators rejected', fn='Combinable<i64>::combine'),
       dict(name='proofs::vx_canary', expect_fail=True)],
    assumptions=['A-count-range: COUNT accumulators stay below 2^32-1 per partition group and 2^62 across partitions',
                 'shim: QueryError and fatal!/error! macros replaced by kani/common/shim.rs (no formatting)'],
    not_covered=['SumF64/MaxF64/MinF64 and Combinable<OrderedFloat<f64>> (floating point)'])

UNITS['U13k'] = dict(
    kind='kani', crate='kani/U13',
    title='LIMIT/OFFSET arithmetic: QueryTask::convert_to_output_format (slice), QueryTask::combined_limit, NormalFormQuery::run (slice) (complete)',
    harnesses=[dict(name='proofs::output_window_contract', clause='count == min(limit, len.saturating_sub(offset)); window in bounds; no panic', fn='QueryTask::convert_to_output_format[slice]'),
               dict(name='proofs::combined_limit_contract', clause='limit + offset without overflow (saturating)', fn='QueryTask::combined_limit'),
               dict(name='proofs::partition_limit_contract', clause='limit + offset without overflow (saturating)', fn='NormalFormQuery::run[slice]'),
               dict(name='proofs::null_column_window', clause='Data for usize::slice_box(offset, offset + count) == count', fn='Data for usize::slice_box[slice]'),
               dict(name='proofs::vx_canary', expect_fail=True)],
    assumptions=['slice: only the statements computing limit/offset/count are extracted; the row/column copying that follows uses them as offset..offset+count'],
    not_covered=['batch_merging::combine select-branch count', 'row assembly in convert_to_output_format'])

UNITS['U07k'] = dict(
    kind='kani', crate='kani/U07', needs_lock=True,
    title='comparison_operators.rs: LessThan/LessThanEquals/Equals/NotEquals::perform over {u8,u16,u32,i64}^2 and of64, BoolOr/BoolAnd (complete)',
    path_includes=['src/engine/operators/comparison_operators.rs'],
    harnesses=[dict(name='proofs::cmp_%s_%s' % (a, b), clause='perform(t,u) == (int(t) REL int(u)) for REL in <,<=,=,<>', fn='BinaryOp<%s,%s,u8>::perform' % (a, b)) for a in _T4 for b in _T4]
    + [dict(name='proofs::cmp_f64', clause='float comparisons are the IEEE relations on non-NaN operands', fn='BinaryOp<of64,of64,u8>::perform'),
       dict(name='proofs::bool_ops', clause='BoolOr/BoolAnd are logical OR/AND on 0/1 filter bytes', fn='BoolOr/BoolAnd::perform'),
       dict(name='proofs::vx_canary', expect_fail=True)],
    assumptions=['shim: GenericIntVec reduced to a marker trait for {u8,u16,u32,i64}', 'filter bytes are 0 or 1 (produced by `cond as u8`)',
                 'NaN operands excluded from the float contract (OrderedFloat total order is implementation-defined there)'],
    not_covered=['&str comparisons (see U06)'])

UNITS['U05k'] = dict(
    kind='kani', crate='kani/U05', needs_lock=True, timeout_s=900,
    title='codec.rs: Codec::encode_int / encode_float composed with the real comparison kernels (complete: every constant, offset, stored value)',
    path_includes=['src/engine/operators/comparison_operators.rs'],
    harnesses=[dict(name='proofs::offset_cmp_%s' % t, clause='forall v,y,x: perform_REL(v, encode_int(x)) == ((v + y) REL x), no overflow/panic', fn='Codec::encode_int + BinaryOp<%s,i64,u8>' % t) for t in ('u8', 'u16', 'u32')]
    + [dict(name='proofs::toi64_identity', clause='ToI64 codec: constants unchanged', fn='Codec::encode_int/encode_float'),
       dict(name='proofs::offset_cmp_float', solver='cadical', clause='float constant vs offset-encoded int column: same answer as on decoded values (exactness domain)', fn='Codec::encode_float'),
       dict(name='proofs::vx_canary', expect_fail=True)],
    assumptions=['reduced struct: Codec { ops } (six other fields dropped)',
                 'A-float-exact: encode_float contract stated for stored values u16, |offset| <= 2^20 and constants k/4 with |constant| <= 2^20 (outside this domain f64 subtraction may round; not decided)',
                 'decoded value of stored v under Add(t, y) is v + y (proved for the decode kernels in U04)'],
    not_covered=['Codec::encode_str (planner objects)', 'compile_expr choice of when to translate the constant'])

UNITS['U12k'] = dict(
    kind='kani', crate='kani/U12', needs_lock=True, timeout_s=900,
    title='comparator.rs: every impl Comparator<T> for CmpLessThan / CmpGreaterThan (complete for ints and floats; strings bounded at 2 bytes)',
    path_includes=['src/engine/operators/comparator.rs'],
    harnesses=[dict(name='proofs::%s_%s' % (d, t), clause='cmp/cmp_eq/ordering describe one total preorder; direction = is_less_than()', fn='Comparator<%s> for %s' % (t, 'CmpLessThan' if d == 'lt' else 'CmpGreaterThan'))
               for d in ('lt', 'gt') for t in ('u8', 'u16', 'u32', 'u64', 'i64', 'f64')]
    + [dict(name='proofs::%s' % n, bounded='strings <= 2 ASCII bytes, unwind 4', unwind=4, clause='consistency + NULL placement (ascending: NULL last, descending: NULL first)', fn=n)
       for n in ('lt_str', 'gt_str', 'lt_opt_str', 'gt_opt_str', 'lt_val', 'gt_val')]
    + [dict(name='proofs::vx_canary', expect_fail=True)],
    assumptions=['OrderedFloat total order is executed by CBMC, not assumed'],
    not_covered=['Comparator<Option<OrderedFloat<f64>>> for CmpGreaterThan: not instantiated by the planner (design-time probe H7); reported, not claimed'])

UNITS['U20k'] = dict(
    kind='kani', crate='kani/U20', needs_lock=True,
    title='type_conversion.rs: widening Cast impls (u8/u16/u32 -> i64/u64/of64, i64 -> of64, * -> Val) (complete)',
    harnesses=[dict(name='proofs::%s' % n, clause=c, fn=n) for n, c in [
        ('u8_to_i64', 'value preserved'), ('u16_to_i64', 'value preserved'), ('u32_to_i64', 'value preserved'),
        ('u8_to_u64', 'value preserved'), ('u16_to_u64', 'value preserved'), ('u32_to_u64', 'value preserved'),
        ('u8_to_f64', 'exact, never NULL marker'), ('u16_to_f64', 'exact, never NULL marker'), ('u32_to_f64', 'exact, never NULL marker'),
        ('i64_to_f64', 'I64_NULL -> F64_NULL, other values `as f64`, never the NULL marker'),
        ('ints_to_val', 'Val::Integer(value)'), ('float_to_val', 'F64_NULL -> Val::Null, else bit-exact'), ('opt_str_to_val', 'None -> Val::Null')]]
    + [dict(name='proofs::vx_canary', expect_fail=True)],
    assumptions=[], not_covered=['narrowing casts (`as u8` ...) and Val -> integer casts (panic arms)', 'i64 -> f64 rounding for |v| > 2^53 is inherent to the documented degrade'])

UNITS['U02w'] = dict(
    kind='native', crate='kani/U02b', bin='vx_u02b', needs_lock=True, timeout_s=900,
    pool='ColumnBuffer::null(n0) followed by two operations from a pool of push_nulls / push_ints shapes with lengths 0,1,2,3,7,8,9,15,16,17 and five null maps',
    title='WITNESS SEARCH for U02 (not a proof): the real ColumnBuffer null-map code compiled natively and driven over a pool of small shapes against a row model',
    assumptions=['used only to find a concrete failing input when U02 loses an anchor or fails; exhausting the pool decides nothing'],
    not_covered=[])

UNITS['U02b'] = dict(
    kind='kani', crate='kani/U02b', needs_lock=True, timeout_s=900, mem_gb=10, jobs=6,
    title='BOUNDED fallback for U02: real ColumnBuffer::{null,push_ints,push_nulls,push_present,init_present} on fixed-shape scenarios around the bitmap byte boundary (all values and null maps symbolic) against a row model',
    harnesses=[dict(name='proofs::%s' % n, bounded='fixed shape %s, unwind 11' % n, unwind=11, clause='row count, NULL exactly where missing, integer values kept, no stray bits', fn='ColumnBuffer ops') for n in ['dense3_then_mapped', 'dense8_then_mapped', 'dense7_then_null', 'dense8_then_null', 'dense9_then_null', 'late_column_after_3', 'late_column_after_8']]
    + [dict(name='proofs::vx_canary', expect_fail=True)],
    assumptions=['shims: StringColBuffer and RawVal reduced to stand-ins (only stored, never inspected by the null-map code)'],
    not_covered=['push_floats / push_strings / finalize', 'shapes other than the seven listed'])

UNITS['U15k'] = dict(
    kind='kani', crate='kani/U15', timeout_s=1500, mem_gb=16,
    title='BOUNDED (length <= 4, all i64 values): api.rs integer layouts - determine_delta_compressability, selection conditions (slices), delta_encode / double_delta_encode, decode loops (slices)',
    harnesses=[dict(name='proofs::layouts_len%d' % n, solver='cadical', bounded='sequence length %d, unwind %d' % (n, 7 if n == 4 else 6), unwind=(7 if n == 4 else 6), clause='decode_layout(encode_layout(xs)) == xs for the layout the server selects; no overflow, no unwrap failure', fn='api.rs integer layouts') for n in (2, 3, 4)]
    + [dict(name='proofs::vx_canary', expect_fail=True)],
    assumptions=['slice: the order of the seven-way if-chain is restated in the harness; each condition is the extracted expression',
                 'R9: capnp list builders/readers replaced by Vec<T> (A-capnp: the transport carries the lists unchanged)'],
    not_covered=['capnp encode/decode', 'sequences longer than 4 (the loops are uniform; unbounded proof pending)'])

UNITS['U16k'] = dict(
    kind='kani', crate='kani/U16', needs_lock=True, timeout_s=1200,
    title='xor_float/double.rs: encode/decode loop bodies, prologues and mask (slices) - induction base and step (complete: all states satisfying Inv, all 2^64 next values, all mantissa settings)',
    harnesses=[dict(name='proofs::base', clause='prologues establish Inv; mask keeps sign/exponent/m mantissa bits', fn='encode/decode prologue'),
               dict(name='proofs::step', unwind=3, clause='enc_body (the encoder loop run for one element); dec_body: all bits consumed, value equal under mask, Inv re-established, no panic', fn='encode/decode loop bodies'),
               dict(name='proofs::vx_canary', expect_fail=True)],
    assumptions=['A-bitbuffer: BitWriteStream/BitReadStream (LittleEndian) modelled as a bit FIFO (shim in kani/U16/src/lib.rs)',
                 'A-ind-scheme: base + step + equal trip counts of the two loops (structure of the loop headers, not re-checked by a verifier) give the round trip for every length',
                 'max_regret <= u32::MAX - 64 (the only caller passes 100)'],
    not_covered=['decode of arbitrary / malformed byte streams', 'single.rs (f32 variant)', 'verbose_encode'])

UNITS['U17k'] = dict(
    kind='kani', crate='kani/U17', needs_lock=True, timeout_s=900, mem_gb=10, jobs=6,
    title='BOUNDED: real crate locustdb-serialization, event_buffer::ColumnBuffer::push - two fixed row shapes through the whole fn, and the four representation-transition arms (slices) over vectors of length 3: every value stays at its row',
    harnesses=[dict(name='proofs::%s' % n, bounded='fixed shape %s, unwind 6' % n, unwind=6, clause='den(representation, row) == value pushed at that row (ints promoted in place when a float arrives), NULL elsewhere', fn='event_buffer::ColumnBuffer::push') for n in ['dense_floats_then_gap', 'late_start_float_then_int']]
    + [dict(name='proofs::%s_keeps_rows' % n, bounded='vector length 3 (floats any f64, row indices any u64, promoted ints any value in -128..=127), unwind 6', unwind=6, clause=c, fn='event_buffer::ColumnBuffer::push[slice %s]' % n) for (n, c) in [
        ('arm_dense_to_sparse', 'dense row i becomes sparse entry (i, value); the new value is appended at existing_len'),
        ('arm_i64_to_sparse', 'dense integer row i becomes sparse entry (i, value); the new value is appended at existing_len'),
        ('arm_sparse_i64_to_sparse', 'promotion keeps every row index: out[i] == (data[i].0, data[i].1 as f64)'),
        ('arm_i64_gets_float', 'whole (I64, Float) arm incl. the recursive push: integer rows promoted in place, the float at existing_len, a gap stays NULL')]]
    + [dict(name='proofs::vx_canary', expect_fail=True)],
    assumptions=['whole crate compiled unmodified for the two whole-fn harnesses (capnp dependency included but not exercised)',
                 'arm slices: the match binding `data` (from `&mut self.data`) is restated as a `&mut Vec<_>` parameter; the recursive self.push that follows a promotion is covered by the whole-fn harnesses only for the float-column shapes'],
    not_covered=['string / mixed values', 'row shapes other than the listed ones', 'vectors longer than 3', 'EventBuffer::serialize / deserialize (capnp)', 'TableBuffer::push_row_and_timestamp (HashMap, system time)'])

UNITS['U18k'] = dict(
    kind='kani', crate='kani/U18',
    title='meta_store.rs WAL cursor primitives, Storage::recover per-segment classification (slice), InnerLocustDB::new replay contiguity (slice), cursor field written by MetaStore::serialize / read by deserialize (slices) (complete)',
    harnesses=[dict(name='proofs::cursor_primitives', clause='add_wal_segment returns old next and increments; unflushed = cursor..next; register keeps next > id', fn='MetaStore cursor fns'),
               dict(name='proofs::recover_classification', unwind=3, clause='replayed iff id >= cursor; deleted iff id < cursor and not read-only; replayed ids registered', fn='Storage::recover[slice]'),
               dict(name='proofs::replay_contiguity', clause='after replaying id the expected next id is id + 1', fn='InnerLocustDB::new[slice]'),
               dict(name='proofs::persisted_cursor_roundtrip', clause='deserialize(serialize(m)).earliest_unflushed_wal_id == m.earliest_unflushed_wal_id', fn='MetaStore::serialize/deserialize[slices]'),
               dict(name='proofs::vx_canary', expect_fail=True)],
    assumptions=['reduced struct MetaStore { next_wal_id, earliest_unflushed_wal_id } (partitions dropped)', 'A-wal-ids: fewer than 2^64 - 1 WAL segments',
                 'shims: Writer (records deletes), PathId, WalSegment { id }, log::info! (dropped), DbMeta { next_wal_id } with set/get (A-capnp for this field)'],
    not_covered=['history composition: write-ahead-before-ack, order of persist / advance / delete in wal_flush, catalogue serialisation (capnp)'])

UNITS['U04k'] = dict(
    kind='kani', crate='kani/U04',
    title='integers.rs: IntegerColumn::new_boxed interval computation and width/offset choice (slice) for every (min, max) (complete)',
    harnesses=[dict(name='proofs::width_offset_choice', unwind=6, clause='chosen width/offset holds [min - offset, max - offset]; no overflow computing the interval', fn='IntegerColumn::new_boxed[slice]'),
               dict(name='proofs::vx_canary', expect_fail=True)],
    assumptions=['shims: Column::new / IntegerColumn::create_col / DataSection record the choice instead of building a column'],
    not_covered=['lz4_or_pco_encode (A-lz4, A-pco)'])

UNITS['U14b'] = dict(
    kind='kani', crate='kani/U14',
    title='A-bytes: u64/usize::{to,from}_be_bytes are an inverse pair (complete) - discharges the assumed spec of spec_be64 / spec_be64_decode used by U14v',
    harnesses=[dict(name='proofs::be64_inverse_pair', clause='from_be_bytes(to_be_bytes(x)) == x and conversely, all values', fn='u64::{to,from}_be_bytes'),
               dict(name='proofs::vx_canary', expect_fail=True)],
    assumptions=[], not_covered=[])

UNITS['U14v'] = dict(
    kind='verus', tpl='contracts/U14v_file_writer.vx',
    title='disk_store/file_writer.rs: VersionedChecksummedBlobWriter::{store, load} - a file is accepted iff it is exactly version | length | sha256(payload) | payload',
    assumptions=['A-sha: SHA-256 is an uninterpreted function with 32-byte output (spec_sha256); "a bit-flipped checksum or payload is rejected" holds up to collisions of the real function',
                 'A-bytes: big-endian conversions are an inverse pair (spec_be64 / spec_be64_decode, axiom_be64) - proved for the std functions by U14b',
                 'R9: the inner writer is dropped (store returns the bytes handed to it, load takes the bytes it returned); error values lose their message text; slicing / extend / to_vec / slice comparison replaced by verified helpers',
                 'usize is 64 bits'],
    not_covered=['FileBlobWriter (file system)', 'Cap\'n Proto encode/decode of segments and catalogue (A-capnp)', 'partition_segment.rs / meta_store.rs (de)serialisation'])

UNITS['U21k'] = dict(
    kind='kani', crate='kani/U21', timeout_s=900, mem_gb=20, jobs=2,
    title='parser.rs: get_limit / get_offset numeric-literal conversion (expression slices; BOUNDED: literals <= 4 chars) and the statement-list handling of parse_query (slice; complete: 0, 1, 2 statements)',
    harnesses=[dict(name='proofs::limit_never_panics', bounded='literal <= 4 chars over 0-9 . e -, unwind 6', unwind=6, extra=['-Z', 'stubbing'], clause='Ok iff unsigned integer literal; otherwise an error value; no panic', fn='parser::get_limit[slice]'),
               dict(name='proofs::offset_never_panics', bounded='literal <= 4 chars over 0-9 . e -, unwind 6', unwind=6, extra=['-Z', 'stubbing'], clause='Ok iff unsigned integer literal; otherwise an error value; no panic', fn='parser::get_offset[slice]'),
               dict(name='proofs::statement_count_never_panics', unwind=4, extra=['-Z', 'stubbing'], clause='Ok iff the text parsed to exactly one statement and it is a query; zero / several / other statements give an error value; no panic', fn='parser::parse_query[slice: statement list]'),
               dict(name='proofs::vx_canary', expect_fail=True)],
    assumptions=['slice: only the conversion arm; the sqlparser AST match around it is dropped', 'literals longer than 4 characters (e.g. beyond u64) are not generated: parse::<u64> overflow path covered only by reading'],
    not_covered=['sqlparser', 'convert_to_native_expr', 'get_raw_val'])

UNITS['U06k'] = dict(
    kind='kani', crate='kani/U06', needs_lock=True, timeout_s=900,
    title='BOUNDED: InverseDictLookup::execute (R6) + real comparison kernels on dictionary indices: string comparisons against constants present in / absent from a sorted dictionary (3 entries <= 1 byte)',
    path_includes=['src/engine/operators/comparison_operators.rs'],
    harnesses=[dict(name='proofs::str_%s' % r, bounded='3 dictionary entries and constant of <= 1 ASCII byte, unwind 5', unwind=5, clause='d[i] %s c == perform(i, inverse_dict_lookup(d, c))' % sym, fn='InverseDictLookup::execute + comparison kernel') for r, sym in (('eq', '='), ('ne', '<>'), ('lt', '<'), ('le', '<='), ('gt', '>'), ('ge', '>='))] + [
               dict(name='proofs::vx_canary', expect_fail=True)],
    assumptions=['registry scan (syntactic, //@scan): an operator is obliged to commute with the constant translation only if FUNCTION2_REGISTRY routes its (String, String) signature through Function2::comparison_op (encoding_invariance = true)',
                 'dictionary entries are sorted and distinct (mapping.sort_unstable() after a HashSet, A-std-sort)'],
    not_covered=['dictionary construction (fast_build_string_column)', 'LIKE / regex'])

UNITS['U04d'] = dict(
    kind='kani', crate='kani/U04d', timeout_s=900,
    title='BOUNDED (3 rows, all values): element-wise arms of the free fn column::decode used by compaction - Add / ToI64 / Delta for u8,u16,u32 and Delta(I64) (statement and expression slices)',
    harnesses=[dict(name='proofs::decode_%s' % t, bounded='3 rows, unwind 5', unwind=5, clause='Add: stored + offset; ToI64: stored; Delta: running sum', fn='column::decode[slices %s]' % t) for t in ('u8', 'u16', 'u32')]
    + [dict(name='proofs::decode_delta_i64', bounded='3 rows, unwind 5', unwind=5, clause='Delta(I64): running sum', fn='column::decode[slice i64]'),
       dict(name='proofs::unhexpack_arm_is_implemented', clause='the UnhexpackStrings arm of decode returns (does not panic)', fn='column::decode[slice: UnhexpackStrings arm]'),
       dict(name='proofs::vx_canary', expect_fail=True)],
    assumptions=['R10: `arg0: &dyn Data` replaced by a typed view with the same cast_ref_* accessor', 'the stack machine of decode (order of ops, Nullable, PushDataSection, DictLookup, LZ4, Pco, UnpackStrings arms) is not covered'],
    not_covered=['column::decode control structure (section stack), string / compression arms (the UnhexpackStrings arm is a known finding: todo!())'])

UNITS['U43n'] = dict(
    kind='native', crate='kani/U43n', bin='vx_u43n', needs_lock=True, timeout_s=900,
    pool='3 rows: every index triple over a 3-entry dictionary and every presence pattern (dictionary string columns, with and without NULLs); stored bytes over {0, 1, 7, 255}^3, offsets {0, -3, 1000, i64::MIN/4}, delta on/off, every presence pattern (all eight entries of the narrow-integer codec table); the same with an LZ4-compressed u16 payload over {0, 1, 300, 65535}^3 (Codec::with_lz4 op list, slice); packed string columns over five strings (empty, short, 45 and 300 bytes), plain and LZ4-compressed; 64-bit integer columns over {0, -1, i64::MAX/2, i64::MIN/2+7}^3 with delta on/off and float columns over {0.0, -0.0, 1.5, NaN, -inf}^3, both with every presence pattern, built by the match expressions of IntegerColumn::new_boxed / FloatColumn::new_boxed (slices)',
    title='BOUNDED exhaustive enumeration (native, not a proof): the free fn column::decode (whole fn, the stack machine compaction reads stored columns with) on the codecs the ingestion side builds - dictionary string columns (dict_codec item + presence attachment slice of fast_build_string_column) and every entry of the narrow-integer codec table (slice of IntegerColumn::create_col): NULL stays NULL, values stay values',
    assumptions=['R10: `dyn Data` reduced to the accessors decode calls; Vec<T> / NullableVec<T> implement them as the real ones do (cast_ref_<t> gives the payload also of a nullable vector, get_type is the nullable type, make_nullable pairs payload and bitmap, slice_box(0, len) is the whole vector); Codec reduced to its op list',
                 'mem_store/lz4.rs is the real module over the lz4_flex crate (#[path] include), PackedStrings / StringPackerIterator are real items of stringpack.rs; pco is a stand-in that must not be reached',
                 'the same harnesses as Kani proofs (symbolic values, 2 rows) did not finish in 15 min each - dynamic dispatch over dyn Data; hence a native enumeration over a stated pool (bounded stand-in, reported under coverage.bounded)'],
    not_covered=['columns outside the pool', 'Pco-compressed sections, UnhexpackStrings (known finding of U04d)', 'u32 payloads (element arms are U04d)', 'the compaction loop around decode'])

UNITS['U22k'] = dict(
    kind='kani', crate='kani/U22', timeout_s=700, mem_gb=12, jobs=2,
    title='ATTEMPT, belongs to no check (CBMC does not finish): inner_locustdb::subpartition column ordering and grouping into files (slice), 3 columns, two fixed name sets',
    harnesses=[dict(name='proofs::%s' % n, bounded='3 one-byte columns named %s, size limit 1..=3 (all three groupings), unwind 6' % names, unwind=6, clause='every column lands in exactly one file; files hold ascending runs (byte order) of the names; each file is keyed by its last name', fn='subpartition')
               for (n, names) in [('mixed_case_names_layout', '{a, B, c}'), ('prefix_names_layout', '{ab, a, abc}')]]
    + [dict(name='proofs::vx_canary', expect_fail=True)],
    assumptions=['R10: Column reduced to (name, size); Options reduced to max_partition_size_bytes', 'A-sha: sha2 replaced by a stand-in crate (key formatting of unsafe names only; not exercised by these name sets)'],
    not_covered=['sanitize_table_name', 'partition_filename formatting', 'names that are not file-system safe (digest keys)', 'lazy load / empty-handle protocol (concurrent)'])

UNITS['U22n'] = dict(
    kind='native', crate='kani/U22n', bin='vx_u22n', needs_lock=True, timeout_s=900,
    pool='every set of 1..4 (thorough: 6) column names from a pool of 16 (lower/upper-case pairs, prefixes, digits, underscore, "all", a non-ASCII name, a name with a space), given in two orders, unit sizes under every size limit 1..n and sizes 1,2,1,2.. under the limit 3',
    title='BOUNDED exhaustive enumeration (native, not a proof): column -> file routing - inner_locustdb::subpartition (whole fn) + the lookup construction of flush_table_buffer and Storage::prepare_compact (slices) + PartitionMetadata::subpartition_key / subpartition_has_been_loaded / mark_subpartition_as_loaded (whole fns): every column is looked up in the file it was written to',
    assumptions=['BTreeMap cursors, String ordering, sort_by and sha2 are outside both verifiers (U22k is the recorded attempt); the real functions are compiled natively and enumerated over a stated pool (bounded stand-in, reported under coverage.bounded)',
                 'R10: Column reduced to (name, size); Options reduced to max_partition_size_bytes; PartitionMetadata reduced to the two fields the lookups read'],
    not_covered=['column sets outside the pool', 'the lookup rebuilt from the catalogue file (MetaStore::deserialize, versions v0-v3)', 'partition file names (sanitize_table_name is U24k)', 'lazy loading protocol around the loaded flag (concurrent)'])

UNITS['U42n'] = dict(
    kind='native', crate='kani/U42n', bin='vx_u42n', needs_lock=True, timeout_s=900,
    pool='every history of <= 3 (thorough: 4) steps over {restart, a batch for table t whose columns are any subset of a 4-name pool (case pair, non-ASCII, 70 bytes) plus timestamp, optionally with its first column empty (NULLs only)} - 32 step shapes',
    title='BOUNDED exhaustive enumeration (native, not a proof): catalogue glue - ingest_efficient catalogue part and ingest loop (slices), create_if_empty_no_ingest, Table::{init_column_names, ingest_homogeneous, column_names, new_column_names} (whole fns), the name set a table is created with (slice of Table::new), the table/column the column list is read from (slice): every table\'s name set equals the columns it holds, the catalogue lists each column and each table exactly once, across restarts',
    assumptions=['HashMap / HashSet / String are outside both verifiers; the real functions are compiled natively and enumerated over a stated pool of histories (bounded stand-in, reported under coverage.bounded)',
                 'A-query: reading the catalogue column returns the strings stored in it (query engine, C01); which table and column are read is taken from the real code (slice of schedule_query_column_names)',
                 'R10: Table reduced to (name, buffer, column_names); Buffer records the ingested columns; restart re-creates every table that holds data with Table::new(name, lru, None) as restore_from_disk does; write-ahead logging, flush and the wal-size wait are left out'],
    not_covered=['histories longer than the bound, more than one user table', 'flush / compaction themselves (the name set they use is checked, not their code)', 'WAL replay order at restart', 'SELECT * expansion in run_query', 'concurrent ingestion'])

UNITS['U23k'] = dict(
    kind='kani', crate='kani/U23', timeout_s=600,
    title='BOUNDED (strings <= 2 ASCII bytes): column_buffer.rs is_lowercase_hex / is_uppercase_hex',
    harnesses=[dict(name='proofs::hex_predicates', bounded='strings <= 2 ASCII bytes, unwind 5', unwind=5, clause='true exactly for even-length strings over the lower- / upper-case hex alphabet', fn='is_lowercase_hex / is_uppercase_hex'),
               dict(name='proofs::vx_canary', expect_fail=True)],
    assumptions=[], not_covered=['hex packing itself (hex crate, A-hex)', 'non-ASCII strings'])

UNITS['U25k'] = dict(
    kind='kani', crate='kani/U25', timeout_s=900, mem_gb=6, jobs=12,
    title='planner.rs propagate_nullability / combine_nulls / combine_nulls2: the NULLs of a binary operator result come from exactly its nullable operands, the values from the same operator on the operands\' data (every buffer index; the three nullability patterns with representative types, plus the complete is_nullable / non_nullable tables)',
    harnesses=[dict(name='proofs::%s_nulls' % h, unwind=5, bounded='the three nullability patterns (both / left / right operand nullable) with representative types; every buffer index; unwind 5',
                    clause='rewrite of %s with nullable result: null sources == nullable operands; value op on forget_nullability(operands) into a fresh buffer' % v, fn='propagate_nullability[%s] + combine_nulls' % v)
               for (h, v) in [('add', 'Add'), ('subtract', 'Subtract'), ('multiply', 'Multiply'), ('divide', 'Divide'), ('modulo', 'Modulo'),
                              ('less_than', 'LessThan'), ('less_than_equals', 'LessThanEquals'), ('equals', 'Equals'), ('not_equals', 'NotEquals')]]
    + [dict(name='proofs::checked_%s_nulls' % h, unwind=5, bounded='the three nullability patterns (both / left / right operand nullable) with representative types; every buffer index; unwind 5',
            clause='rewrite of Checked%s: NullableChecked%s on the operands\' data with a presence bitmap from exactly the nullable operands' % (v, v), fn='propagate_nullability[Checked%s] + combine_nulls2' % v)
       for (h, v) in [('add', 'Add'), ('subtract', 'Subtract'), ('multiply', 'Multiply'), ('divide', 'Divide'), ('modulo', 'Modulo')]]
    + [dict(name='proofs::%s' % h, unwind=5, bounded='representative types (NullableI64 input); every buffer index; unwind 5', clause=c, fn='propagate_nullability[%s]' % v)
       for (h, v, c) in [('cast_nulls', 'Cast', 'null source == input; Cast on forget_nullability(input) into a fresh buffer'), ('floor_nulls', 'Floor', 'null source == input; Floor on the input data'), ('dict_lookup_nulls', 'DictLookup', 'null source == indices; lookup on the index data'),
                         ('merge_keep_mixed_nullability', 'MergeKeep', 'the non-nullable side is wrapped by MakeNullable; MergeKeep then runs on two nullable sides, sides not swapped')]]
    + [dict(name='proofs::%s_is_three_valued' % h, unwind=5, bounded='the three nullability patterns; one row with any data bytes / presence bits; unwind 5', clause=c, fn='propagate_nullability[%s] + combine_nulls, evaluated on one row' % v)
       for (h, v, c) in [('or', 'Or', 'TRUE OR NULL = TRUE; defined results agree with SQL'), ('and', 'And', 'FALSE AND NULL = FALSE; defined results agree with SQL')]]
    + [dict(name='proofs::tag_tables', clause='is_nullable() is true exactly for the Nullable* types; non_nullable() maps each to its base type and is the identity elsewhere (every EncodingType)', fn='EncodingType::is_nullable / non_nullable'),
       dict(name='proofs::vx_canary', expect_fail=True)],
    assumptions=['precondition: a nullable result has at least one nullable operand (what the ASTBuilder type inference `null=lhs,rhs` produces; the proc-macro is not under contract)',
                 'QueryPlan: #[derive(ASTBuilder, Debug)] and the #[output]/#[internal]/#[nohash] field attributes are stripped (R1); the enum variants and fields are the real ones',
                 'BufferProvider.shared_buffers (HashMap cache) dropped (R10); phantom payload types (MergeOp, Premerge, ValRows, RawVal, Val, Aggregator) are inert stand-ins',
                 'the semantics of CombineNullMaps / AssembleNullable / PropagateNullability / GetNullMap nodes is that of their operators (CombineNullMaps: U40k; the others only alias scratchpad buffers)',
                 'symbolic operand types made CBMC exceed 64 GB (a Vec returned from either branch of combine_nulls is reallocated by push); the planner fns read a type only through is_nullable() / non_nullable(), which tag_tables covers completely'],
    not_covered=['the ASTBuilder-generated type inference and the executor wiring in query_plan::prepare'])

UNITS['U27k'] = dict(
    kind='kani', crate='kani/U27', timeout_s=600, mem_gb=8,
    title='row count of the NULL column that stands in for a column missing from a partition: compile_expr choice per filter kind (slice) x query_plan::prepare decoding of source_type (slice) x Filter::apply_filter (complete)',
    harnesses=[dict(name='proofs::missing_column_rows_match_filter', clause='per filter kind: real columns go through Filter / NullableFilter / Select / Empty and the stand-in NULL column takes its length from NonZeroU8ElementCount / NonNullElementCount / InputLength / 0 / partition length respectively', fn='compile_expr[slice] / prepare[slice] / Filter::apply_filter'),
               dict(name='proofs::key_field_is_filtered_once', clause='for every filter kind, key type (narrow / i64 / nullable / missing column) and offset choice: the packed-key field has exactly one row filter between it and the partition rows (none without WHERE)', fn='try_bitpacking[slice: key field] + Filter::apply_filter'),
               dict(name='proofs::order_by_path_for_every_key_type', unwind=4, clause='for every key type, LIMIT and partition length: top_n (only for one key and LIMIT < len/2, over a key whose type has a fused-NULL representation) or a stable sort_by; never a panic', fn='NormalFormQuery::run[slice: top-n or sort] + EncodingType::nullable_fused'),
               dict(name='proofs::vx_canary', expect_fail=True)],
    assumptions=['A-astbuilder: the generated planner methods (null_vec, null_vec_like, filter, nullable_filter, select, empty, fuse_nulls, top_n, indices, sort_by) build the node named after them from their arguments in order; recording stand-ins',
                 'the operators behind the nodes are U19 (NullVecLike count slice, Filter*, NullableFilter*) and U13k (NULL column window)'],
    not_covered=['the other call sites of null_vec_like (group-by placeholders)', 'the ASTBuilder proc-macro'])

UNITS['U28k'] = dict(
    kind='kani', crate='kani/U28', timeout_s=1200, mem_gb=8, jobs=8,
    title='batch_merging::combine - the plan that merges two partial results (slices; BOUNDED: 0-3 group-by columns with three aggregates, 1-2 sort columns with three output columns; 4-5 group-by and 3 sort columns in the thorough tier) with real unify_types / null_to_val; unify_types + least_upper_bound for every pair of types (complete)',
    harnesses=[dict(name='proofs::%s' % w, bounded='%d group-by columns at fixed positions, three aggregates (int/int, int/float, float/int), any limit, unwind 7' % n, unwind=7, clause=c, fn='combine[slice: aggregation branch up to the executor call]')
               for (w, n, c) in [('no_group_by_column', 0, 'constant schedule [TakeLeft, MergeRight]; every aggregate combined under it from its own left / right partial column; the integer side of a mixed pair cast to float'),
                                 ('one_group_by_column', 1, 'merge_deduplicate(key); every aggregate combined under its schedule'),
                                 ('two_group_by_columns', 2, 'partition(key0) -> merge_deduplicate_partitioned(key1) -> merge_drop replay on key0; aggregates under that schedule'),
                                 ('three_group_by_columns', 3, 'partition(key0) -> subpartition(key1) -> merge_deduplicate_partitioned(key2) -> merge_drop replay on keys 0..1; outputs in key order; aggregates under that schedule'),
                                 ]]
    + [dict(name='proofs::four_group_by_columns', thorough_only=True, bounded='4 group-by columns at fixed positions, three aggregates, any limit, unwind 7 (thorough tier)', unwind=7, clause='partition(key0) -> subpartition(key1..2 in order) -> merge_deduplicate_partitioned(key3) -> merge_drop replay on keys 0..2; outputs in key order; aggregates under that schedule', fn='combine[slice: aggregation branch up to the executor call]')]
    + [dict(name='proofs::%s' % w, bounded='%d sort columns at fixed positions with any directions, three output columns, any limit, unwind 7' % n, unwind=7, clause=c, fn='combine[slice: ORDER BY branch up to the executor call]')
       for (w, n, c) in [('one_sort_column', 1, 'merge(sort column, limit, its direction); other output columns replayed with merge_keep on their own buffers; the final sort column output is the merged column'),
                         ('two_sort_columns', 2, 'partition(col0, dir0) -> merge_partitioned(col1, limit, dir1); merge_keep replay on output columns and on sort column 0, directions kept'),
                         ]]
    + [dict(name='proofs::three_sort_columns', thorough_only=True, bounded='3 sort columns at fixed positions with any directions, three output columns, any limit, unwind 7 (thorough tier)', unwind=7, clause='partition(col0, dir0) -> subpartition(col1, dir1) -> merge_partitioned(col2, limit, dir2); merge_keep replay on output columns and on sort columns 0..1, directions kept', fn='combine[slice: ORDER BY branch up to the executor call]')]
    + [dict(name='proofs::unify_types_gives_one_type', clause='for every pair of column types: unify_types returns two buffers of one common type (casts recorded); never a panic', fn='batch_merging::unify_types + EncodingType::least_upper_bound'),
       dict(name='proofs::five_group_by_columns', thorough_only=True, bounded='5 group-by columns at fixed positions, any limit, unwind 8 (thorough tier)', unwind=8, clause='same chain for five keys', fn='combine[slice: aggregation branch up to the executor call]'),
       dict(name='proofs::vx_canary', expect_fail=True)],
    assumptions=['A-astbuilder: planner methods constant_vec / partition / subpartition / merge_deduplicate / merge_deduplicate_partitioned / merge_drop / merge_aggregate / merge / merge_partitioned / merge_keep / cast are recording stand-ins for the generated node constructors',
                 'the kernels behind the nodes are U10, U29 (merge*, partition, subpartition) and U09m (merge_aggregate)',
                 'R6: batch1.aggregations / batch1.order_by / batch1.projection (and batch2.*) lifted to parameters'],
    not_covered=['more than 3 (thorough: 5) group-by columns / 2 (thorough: 3) sort columns', 'key columns of different types on the two sides (casts; unify_types alone is covered for every pair)', 'the plain SELECT branch (append_all with the LIMIT window)', 'executor run and collect_aliased after the plan is built'])

UNITS['U41k'] = dict(
    kind='kani', crate='kani/U41', timeout_s=1500, mem_gb=24, jobs=4,
    title='BOUNDED (4 rows of single-column keys in one batch and in two streamed batches; 2 rows (thorough: 3) of two-column byte-slice / mixed-value keys; every value symbolic): hashmap_grouping.rs, hashmap_grouping_byte_slices.rs, hashmap_grouping_val_rows.rs execute bodies (slices) - one group id per row, equal keys share an id, each distinct key kept once',
    harnesses=[dict(name='proofs::%s' % h, bounded=b, unwind=8, clause='grouping[i] == grouping[j] <=> key[i] == key[j]; unique[grouping[i]] == key[i]; ids dense in first-appearance order; unique.len() == number of distinct keys == reported cardinality', fn=f)
               for (h, b, f) in [('single_column_one_batch', '4 rows, any i64 keys, unwind 8', 'HashMapGrouping<T>::execute[slice]'),
                                 ('single_column_two_batches', '2 + 2 rows streamed, any i64 keys, unwind 8', 'HashMapGrouping<T>::execute[slice]'),
                                 ('byte_slice_rows_two', '2 rows of 2 cells, each cell one of three byte strings, unwind 8', 'HashMapGroupingByteSlices::execute[slice]'),
                                 ('val_rows_two', '2 rows of 2 cells, each cell NULL / an integer / a float from a 256-value range, unwind 8', 'HashMapGroupingValRows::execute[slice]')]]
    + [dict(name='proofs::byte_slice_rows_three', thorough_only=True, bounded='3 rows of 2 cells, each cell one of three byte strings (thorough tier)', unwind=8, clause='same contract', fn='HashMapGroupingByteSlices::execute[slice]'),
       dict(name='proofs::val_rows_three', thorough_only=True, bounded='3 rows of 2 cells (thorough tier; about 10 min and 17 GB)', unwind=8, clause='same contract', fn='HashMapGroupingValRows::execute[slice]'),
       dict(name='proofs::vx_canary', expect_fail=True)],
    assumptions=['A-hashmap: fnv::FnvHashMap behaves as a map with a lawful Hash/Eq key - entry(k).or_insert_with(f) yields the value stored under a key equal to k and runs f (storing its result under k) only when there is none; association-list stand-in in kani/U41/src/lib.rs (hashbrown itself is beyond CBMC)',
                 'R6: scratchpad bindings become parameters of the same guard / reference types; self.map in a one-field stand-in; trait Data reduced to len()'],
    not_covered=['more than 4 rows', 'the hashing itself (Hash for Val / OrderedFloat vs Eq)', 'init / scratchpad wiring', 'group ids beyond u32'])

UNITS['U30k'] = dict(
    kind='kani', crate='kani/U30', timeout_s=600, mem_gb=8,
    title='partition_segment.rs: the hand-written CodecOp <-> Cap\'n Proto union tables of PartitionSegment::serialize / deserialize (slices) and the EncodingType tables agree: every op reads back as written (complete: every variant, every field value)',
    harnesses=[dict(name='proofs::codec_op_roundtrip', clause='de_op(ser_op(op)) == op for every CodecOp except Unknown (which serialize refuses)', fn='PartitionSegment::serialize[slice] / deserialize[slice]'),
               dict(name='proofs::encoding_type_roundtrip', clause='deserialize_type(encoding_type_to_capnp(t)) == t for the eight storable types', fn='deserialize_type / encoding_type_to_capnp'),
               dict(name='proofs::vx_canary', expect_fail=True)],
    assumptions=['A-capnp: the generated builder / reader of the CodecOp union is replaced by a stand-in with the documented union semantics (set_x stores, init_x zero-initialises member x and replaces the content, reborrow aliases, which()/getters return what is stored); packing, segments and the message framing are not modelled',
                 'usize == u64 (64-bit target) for the `as u64` / `as usize` casts of section numbers and lengths'],
    not_covered=['data sections, column name / length / range', 'the WAL segment and catalogue schemas', 'serialize_packed / read_message'])

UNITS['U31k'] = dict(
    kind='kani', crate='kani/U31', timeout_s=600, mem_gb=8, jobs=3,
    title='query_plan.rs try_bitpacking: width of a grouping-key field (nested fn bits, slice) and accounting of the packed key (slice): every value fits its field, fields do not overlap, the key stays within 63 bits or bit packing is abandoned (complete: every i64)',
    harnesses=[dict(name='proofs::field_width_holds_max', clause='0 <= bits(max) <= 63, max < 2^bits(max), minimal', fn='try_bitpacking::bits'),
               dict(name='proofs::field_width_of_negative_is_zero', clause='bits(max) == 0 for max < 0', fn='try_bitpacking::bits'),
               dict(name='proofs::field_span_covers_range', clause='for every reported range [min, max] and nullability: the range is rejected, or adjusted_max >= max - min (+1 with NULL) resp. max; no overflow', fn='try_bitpacking[slices: range binding, span arithmetic]'),
               dict(name='proofs::single_key_span_covers_range', clause='for every reported range: rejected, or every value plus offset lies in 0..=max_cardinality with 0 free for NULL; no overflow', fn='compile_grouping_key[slice: single column]'),
               dict(name='proofs::packed_key_accounting', clause='from any state with key < 2^width <= 2^63: either (key + (max << width), width + bits(max)) with width <= 63, or reset + None iff the key would exceed 63 bits; no arithmetic panic', fn='try_bitpacking[slice: field accounting]'),
               dict(name='proofs::vx_canary', expect_fail=True)],
    assumptions=['Planner stand-in: reset() only counted; Plan stand-in: nullability and the range that encoding_range() reports (any min <= max)', 'A-fuse: fuse_int_nulls(offset) maps v to v + offset and NULL to 0; Add(-min) maps v to v - min (operators under U08k / not under contract)'],
    not_covered=['encoding_range itself (interval arithmetic over plan nodes)', 'BitPack / BitUnpack operators (shift and mask application)'])

UNITS['U32k'] = dict(
    kind='kani', crate='kani/U32', timeout_s=600, mem_gb=8, jobs=2,
    title='packed grouping key: BitShiftLeftAdd::perform and BitUnpackOperator::execute (slice) are inverse for every field layout within 63 bits - induction step over the fields (complete: every shift, width, field value)',
    harnesses=[dict(name='proofs::pack_then_unpack_is_identity', unwind=3, clause='key = lower + (value << shift) stays below 2^(shift+width); unpack(key, shift, width) == value; unpack(key, s, w) == unpack(lower, s, w) for every earlier field', fn='BitShiftLeftAdd::perform / BitUnpackOperator::execute[slice]'),
               dict(name='proofs::widest_field', unwind=3, clause='unpack(v, 0, 63) == v for every v >= 0, no arithmetic panic', fn='BitUnpackOperator::execute[slice]'),
               dict(name='proofs::vx_canary', expect_fail=True)],
    assumptions=['A-ind-scheme: a key of n fields is built by n - 1 BitShiftLeftAdd steps, lowest field first (try_bitpacking; U31k covers the width accounting)',
                 'R6: scratchpad bindings of BitUnpackOperator::execute lifted to parameters; the element loop is run on one element (the body does not depend on the position)'],
    not_covered=['ParameterizedVecVecIntegerOperator::execute zip loop', 'fuse_int_nulls / unfuse_int_nulls around nullable fields'])

UNITS['U34n'] = dict(
    kind='native', crate='kani/U34', bin='vx_u34', timeout_s=900,
    pool='every LIKE pattern of length <= 4 (thorough: 5) over {a, b, ., %, _} without adjacent %, against every subject string of length <= 4 (thorough: 5) over the same alphabet; plus every printable ASCII character (and two non-ASCII ones) c as a literal in the shapes c, ac, ca, acb, cc, %c, c%, _c against every subject of length <= 3 over {a, b, c}',
    title='BOUNDED exhaustive enumeration (native, not a proof): compile_expr LIKE -> regex translation (statement slice, compiled against the real regex crate) agrees with the SQL meaning of LIKE',
    assumptions=['the regex crate is outside both verifiers; the slice is compiled natively and enumerated over a stated pool, so this unit is a bounded stand-in and is reported under coverage.bounded',
                 'reference semantics like_matches(): % any sequence, _ one character, other characters themselves (patterns with adjacent % or backslashes are LocustDB-specific escapes and are left out)'],
    not_covered=['patterns longer than the bound', 'the escape conventions (\\_ and %%)', 'the RegexMatch operator itself'])

UNITS['U35k'] = dict(
    kind='kani', crate='kani/U35', timeout_s=900, mem_gb=10, jobs=6,
    title='BOUNDED (seven fixed shapes: LIMIT n <= 2, one batch of <= 4 rows, keys any value in -128..=127): top_n.rs TopN::execute body (slice) with real heap_replace and i64 comparators - keeps the n best rows, LIMIT 0 keeps none',
    harnesses=[dict(name='proofs::%s' % h, bounded='fixed shape %s, unwind 7' % h, unwind=7, clause='min(n, rows) rows kept; each kept key is the key of its recorded row; rows distinct; no dropped row sorts strictly before a kept row; never a panic', fn='TopN::execute[slice] + heap_replace')
               for h in ('limit0_two_rows_asc', 'limit0_one_row_desc', 'limit1_three_rows_asc', 'limit2_two_rows_asc', 'limit2_one_row_asc', 'limit2_four_rows_asc', 'limit2_three_rows_desc')]
    + [dict(name='proofs::%s' % h, bounded='fixed shape %s, unwind 7' % h, unwind=7, clause='execute then finalize: min(n, rows) distinct rows, in the requested order, none of the dropped rows sorts strictly before the last returned one', fn='TopN::execute[slice] + TopN::finalize[slice]') for h in ('execute_then_finalize_limit2_four_rows_asc', 'execute_then_finalize_limit3_three_rows_desc')]
    + [dict(name='proofs::%s' % h, thorough_only=True, bounded='fixed shape %s, unwind 7 (thorough tier)' % h, unwind=7, clause='same contract', fn='TopN::execute[slice] + heap_replace') for h in ('limit3_four_rows_asc', 'limit1_four_rows_desc', 'two_batches_fill_in_second_asc', 'two_batches_full_after_first_desc')]
    + [dict(name='proofs::vx_canary', expect_fail=True)],
    assumptions=['Vec::with_capacity(n).capacity() == n (TopN::init and execute rely on it; std only promises >= n)', 'R6: scratchpad bindings become parameters of the same guard types (Ref<[T]>, RefMut<Vec<_>>); self.n / self.last_index in a two-field stand-in'],
    not_covered=['more than two batches (two-batch shapes run in the thorough tier)', 'n > 3', 'the planner choice between top-n and full sort'])

UNITS['U37k'] = dict(
    kind='kani', crate='kani/U37', needs_lock=True, timeout_s=900, mem_gb=10,
    title='BOUNDED (columns of 3 rows; ints and floats any value, strings empty): server::encode_column - a mixed result column reads back from its wire representation cell by cell',
    harnesses=[dict(name='proofs::mixed_column_reads_back', bounded='3 rows, each NULL / any i64 / any f64 except the reserved NaN / a string, unwind 5', unwind=5, clause='wire column has one entry per row and row i reads back as the produced value (NULL, int exact, float bit-exact, string)', fn='server::encode_column'),
               dict(name='proofs::vx_canary', expect_fail=True)],
    assumptions=['R10: api::EncodingOpts reduced to (xor_float_compression, mantissa); xor compression off (the codec itself is U16k)', 'A-reserved: the NaN bit pattern xor_float::NULL is not a data value (property C01 states it as reserved)', 'string payloads are not compared (empty strings only)'],
    not_covered=['columns longer than 3 rows', 'the xor-compressed float path', 'bincode / HTTP transport'])

UNITS['U21n'] = dict(
    kind='native', crate='kani/U21n', bin='vx_u21n', timeout_s=900,
    pool='every numeric-literal token the real sqlparser tokenizer produces from texts of length <= 6 (thorough: 7) over {0,1,9,.,e,E,+,-}, plus eleven boundary literals around and beyond the i64 / u64 / f64 limits',
    title='BOUNDED exhaustive enumeration (native, not a proof): parser.rs get_raw_val (whole fn) on every short numeric literal the real sqlparser tokenizer can produce - an error value or a value, never a panic',
    assumptions=['sqlparser and f64 parsing are outside both verifiers; get_raw_val is compiled natively and enumerated over a stated pool (bounded stand-in, reported under coverage.bounded)', 'R10: RawVal and QueryError reduced to same-named stand-ins'],
    not_covered=['literals longer than the bound', 'the rest of convert_to_native_expr'])

UNITS['U38k'] = dict(
    kind='kani', crate='kani/U38', timeout_s=600, mem_gb=8,
    title='order of a NULL grouping key: FuseIntNulls (slice; order of groups inside a partition) vs FuseNullsI64 (slice) + Comparator<i64> for CmpLessThan (order the cross-partition merge requires) agree on every pair of keys (complete)',
    harnesses=[dict(name='proofs::null_key_order_agrees', unwind=3, clause='for all keys a, b (NULL or a value of the column range): fuse_int(a) < fuse_int(b)  <=>  CmpLessThan::cmp(sentinel(a), sentinel(b))', fn='FuseIntNulls::execute[slice] / FuseNullsI64::execute[slice] / Comparator<i64> for CmpLessThan'),
               dict(name='proofs::vx_canary', expect_fail=True)],
    assumptions=['A-pipeline (glue, confirmed by the API history of the known finding): per-partition aggregation emits groups in ascending order of the fused key; the grouping column of a partial result carries NULL as I64_NULL and is merged by MergeDeduplicate<i64, CmpLessThan>',
                 'offset = 1 - min as passed by compile_grouping_key / try_bitpacking'],
    not_covered=['string and float keys', 'descending merges'])

UNITS['U39n'] = dict(
    kind='native', crate='kani/U39n', bin='vx_u39n', needs_lock=True, timeout_s=900,
    pool='105 event buffers: every ColumnData representation (Empty, Dense, Sparse, I64, SparseI64, String, Mixed; empty and boundary contents: NaN payloads, -0.0, subnormals, i64::MIN/MAX, u64::MAX row indices, empty / multi-byte / 300-byte strings) under eight table names (empty, spaces, slashes, dots, non-ASCII, case pairs), alone and combined',
    title='BOUNDED enumeration (native, not a proof): locustdb-serialization EventBuffer::serialize / deserialize (the unmodified sub-crate, real Cap\'n Proto) - the WAL payload reads back as written, bit-exactly',
    assumptions=['Cap\'n Proto and HashMap iteration are outside both verifiers; the sub-crate is compiled natively and run over a stated pool (bounded stand-in, reported under coverage.bounded)'],
    not_covered=['buffers outside the pool', 'the envelope around the payload (U14v)', 'partition files and the catalogue'])

UNITS['U40k'] = dict(
    kind='kani', crate='kani/U40', timeout_s=600, mem_gb=8,
    title='BOUNDED (bitmaps of <= 3 bytes, any contents): combine_null_maps.rs CombineNullMaps::execute loop (slice) - result bitmap = AND of the operand bitmaps',
    harnesses=[dict(name='proofs::result_present_iff_both_present', bounded='bitmaps of <= 3 bytes (24 rows), any contents and lengths, unwind 5', unwind=5, clause='out[k] == lhs[k] & rhs[k] up to the shortest of the three lengths; other bytes untouched; length kept', fn='CombineNullMaps::execute[slice]'),
               dict(name='proofs::vx_canary', expect_fail=True)],
    assumptions=['R6: scratchpad bindings lifted to parameters'],
    not_covered=['CombineNullMaps::init (allocation of the output bitmap)', 'AssembleNullable / PropagateNullability / GetNullMap / MakeNullable: they only alias buffers in the scratchpad (no kernel)'])

UNITS['U24k'] = dict(
    kind='kani', crate='kani/U24', timeout_s=600, mem_gb=12, jobs=2,
    title='BOUNDED (names <= 2 ASCII characters): storage.rs sanitize_table_name - cleaning steps after lower-casing (slice) and the verbatim-or-digest decision (expression slice)',
    harnesses=[dict(name='proofs::verbatim_only_if_identical', bounded='cleaned / requested names of 2 chars (and a 1-char cleaned name) over {E,e,-,.,/,_,7,space}, unwind 6', unwind=6, clause='needs_digest(cleaned, requested) == (cleaned != requested) bytewise', fn='sanitize_table_name[slice: digest decision]'),
               dict(name='proofs::cleaned_name_is_safe', bounded='names of 2 chars over {E,e,-,.,/,_,7,space}, unwind 6', unwind=6, clause='cleaned name is over [A-Za-z0-9_.-] and does not start with . or -', fn='sanitize_table_name[slice: retain / trim]'),
               dict(name='proofs::vx_canary', expect_fail=True)],
    assumptions=['A-sha: distinct originals get distinct digests (the digest formatting itself is not extracted)', 'str::to_lowercase (std, Unicode tables) is not executed symbolically: CBMC did not finish on it in 900 s'],
    not_covered=['names longer than 2 characters, non-ASCII names', 'the `-<name>-<digest>` formatting', 'truncation to 189 bytes'])

PROPS = {
    'C14': dict(level='proof', units=['U14v', 'U14b', 'U30k', 'U18k', 'U39n'],
                level_text='Verus proof that the envelope check accepts a file iff it is intact (for all byte strings: truncated, extended, flipped version / length / payload under A-sha), and that store writes exactly the envelope; complete Kani proofs that the codec-op and element-type tables of the partition file (de)serialiser agree and that the catalogue cursor reads back as written',
                level_note='the "decodes to exactly the logical content" half of C14 is decided for the envelope, the partition file\'s codec description and the catalogue cursor only; data sections, column metadata and the Cap\'n Proto transport itself (A-capnp) are not covered; the WAL payload is covered only by a bounded native enumeration (U39n)',
                technique='contract-based deductive verification (Verus; Kani complete for the byte-conversion assumption) of extracted functions; the WAL payload codec of the unmodified sub-crate by a bounded native enumeration (U39n, labelled bounded)',
                assumptions=[], not_covered=['capnp encode/decode of WAL segments, data sections and the catalogue partitions', 'FileBlobWriter']),
    'C12': dict(level='other', units=['U13k', 'U21k', 'U21n', 'U19', 'U27k'],
                level_text='complete Kani proofs of the LIMIT/OFFSET row-window arithmetic (never more rows than LIMIT, no panic for any limit/offset/length); bounded Kani check that LIMIT/OFFSET literals give an error value instead of a panic; Verus / Kani: the NULL column standing in for an unknown column has exactly as many rows as the filter keeps (BatchResult::validate would otherwise panic a worker)',
                level_note='narrow: sqlparser, convert_to_native_expr, result assembly (BatchResult::validate) and channel delivery are not covered',
                technique='contract-based deductive verification (Kani complete + bounded harnesses) of extracted slices; numeric literals by a bounded native enumeration over the real tokenizer (U21n, labelled bounded)',
                explanation='U13k: loop-free harnesses over all (limit, offset, len) - complete. U21k: LIMIT / OFFSET literals of at most 4 characters over 0-9 . e - (bounded) and the statement list of parse_query for 0, 1, 2 statements (complete). U19 / U27k: the NULL column that stands in for an unknown column has as many rows as the filter keeps (Verus / complete Kani). Everything else about query strings is outside the reach of contracts on this code base.',
                assumptions=[], not_covered=['sqlparser', 'convert_to_native_expr', 'BatchResult::validate', 'unknown tables / columns handling']),
    'C07': dict(level='proof', units=['U02', 'U03', 'U04k', 'U04v', 'U04d', 'U22n', 'U43n'],
                level_text='Verus proofs of the column rebuild kernels used by compaction: ColumnBuffer append with null maps (incl. the incoming-null-map path that only compaction takes), string packing round trip, integer encode / delta / decode kernels; complete Kani proof of the width/offset choice',
                level_note='plan_compaction, Table::compact swap, eviction (LRU), and the free stack-machine column::decode over dyn Data are not covered; that a column evicted or compacted is reloaded from the file it was written to is covered only by the bounded native enumeration U22n; see known findings',
                technique='contract-based deductive verification (Verus + Kani complete) of extracted functions and slices; column -> file routing and the whole fn column::decode by bounded native enumerations of the extracted functions (U22n, U43n; labelled bounded, not counted as discharged)',
                assumptions=[], not_covered=['column::decode (dyn Data stack machine)', 'plan_compaction / Table::compact', 'LRU eviction and reload']),
    'C15': dict(level='other', units=['U24k', 'U22n'],
                level_text='bounded only: Kani harnesses over 2-character names for the table-name cleaning steps and the decision when a directory name must carry the digest of the original name; a native bounded enumeration of the real column -> file routing functions (writer subpartition, both lookup constructions, the three reader lookups) over column-name sets from a stated pool; nothing here is a proof',
                level_note='narrow and bounded: "distinct table names never share files, no name can place a file outside the database directory" for 2-character names, and "every column is looked up in the file it was written to" for sets of up to 4 (thorough: 6) names from a 16-name pool. The routing could not be brought within either verifier: CBMC did not finish the real std sort / BTreeMap code with String keys in 25 min even for 3 concrete names (unit U22k, recorded attempt, belongs to no check), and Verus has no specs for str ordering or BTreeMap cursors; the routing functions are therefore compiled natively and enumerated (U22n, labelled bounded)',
                technique='bounded Kani harnesses over statement / expression slices of the real sanitize_table_name, plus a bounded native enumeration of the mechanically extracted routing functions (both labelled bounded, not counted as discharged obligations)',
                explanation='U24k: two bounded Kani harnesses over slices of storage.rs sanitize_table_name - (1) the decision whether the cleaned name is used verbatim or carries the digest of the original, for all cleaned / requested names of two characters over {E,e,-,.,/,_,7,space}; (2) the cleaning steps after lower-casing, for all two-character names over the same alphabet. U22n: inner_locustdb::subpartition, the lookup construction at its two sites and the reader functions of PartitionMetadata, extracted mechanically, compiled natively and run on every set of up to 4 column names from a 16-name pool under every grouping: each column must be looked up in the file it was written to, file keys must be distinct, and the loaded flag must follow the file. No obligation is discharged deductively for this property.',
                assumptions=[], not_covered=['column sets outside the pool of U22n', 'the lookup rebuilt from the catalogue file (MetaStore::deserialize)', 'partition file names', 'table names longer than 2 characters, non-ASCII table names', 'lazy loading of sub-partitions (concurrent)']),
    'C13': dict(level='proof', units=['U02', 'U27k', 'U17k', 'U42n'],
                level_text='Verus proofs: a column missing from a batch is padded with NULLs for that batch (extend_to_largest body), a column first seen late reads NULL for all earlier rows (ColumnBuffer::null + push_*), per-column append of every input representation; complete Kani proof that a column missing from a partition is given exactly the rows the WHERE clause keeps, for every filter kind; bounded Kani harnesses (fixed row shapes, labelled bounded) that the client-side event buffer leaves NULL exactly the rows that received no value',
                level_note='the catalogue glue (catalogue rows added to a batch, lazy column_names initialisation, name registration) is covered only by a bounded native enumeration of histories over the extracted real functions (U42n, labelled bounded); SELECT * expansion and compaction itself are not covered',
                technique='contract-based deductive verification (Verus, Kani complete) of extracted functions and statement slices; catalogue glue by a bounded native enumeration of histories over the extracted functions (U42n) and the client-side buffer by bounded Kani harnesses (both labelled bounded, not counted as discharged)',
                assumptions=[], not_covered=['catalogue beyond the bounded histories of U42n (one user table, <= 3 steps)', 'the compaction code that uses the name set', 'SELECT * expansion']),
    'C08': dict(level='proof', units=['U18k', 'U02', 'U24k', 'U39n'],
                level_text='complete Kani proofs of the WAL cursor primitives, of the replay-or-delete classification at recovery and of the cursor field written to / read from the catalogue; Verus proof that compaction appends every row of every input partition once, in order (compact_append slice); bounded check that two table names share a directory only if identical (narrow: primitives, not the protocol)',
                level_note='the check catches a broken cursor primitive or classification, not a broken ordering of persist / advance / delete across threads; history composition is not covered',
                technique='contract-based deductive verification (Kani complete harnesses, Verus) of extracted functions and statement slices; the WAL payload codec of the unmodified sub-crate by a bounded native enumeration (U39n, labelled bounded)',
                assumptions=[], not_covered=['write-ahead-before-acknowledge (thread join)', 'wal_flush ordering', 'capnp transport of the catalogue']),
    'C16': dict(level='proof', units=['U16k', 'U15k', 'U02', 'U17k', 'U37k'],
                level_text='float codec: induction base/step discharged by complete Kani harnesses over the extracted loop bodies; integer layouts and client-side row API: bounded Kani harnesses (length <= 4) over all values',
                level_note='A-bitbuffer, A-ind-scheme, A-capnp; bounded parts are reported under coverage.bounded and not counted as discharged obligations',
                technique='contract-based deductive verification (Kani: complete induction step + bounded harnesses) of extracted slices and of the unmodified sub-crate',
                assumptions=[], not_covered=['capnp transport', 'bitbuffer internals', 'bincode / HTTP framing']),
    'C02': dict(level='proof', units=['U10', 'U09k', 'U09m', 'U13k', 'U20k', 'U28k', 'U29', 'U38k'],
                level_text='Verus proofs of the merge kernels that combine per-partition results (sorted, provenance, left-biased, nothing skipped), complete Kani proofs of cross-partition aggregate combination and limit arithmetic; bounded Kani check (0-3 grouping keys with three aggregates, 1-2 sort columns; thorough tier up to 5 and 3) of the plans that merge two partial aggregation / ORDER BY results',
                level_note='per-partition planning, executor streaming, disk read scheduling and thread count are glue and not covered: the check catches a broken merge/combine primitive or a broken key-merge chain, not a broken executor',
                technique='contract-based deductive verification (Verus + Kani complete harnesses) of extracted functions',
                assumptions=[], not_covered=['executor stage partitioning / streaming', 'batch_merging::combine: plain SELECT branch, executor run and collect_aliased', 'disk read scheduler']),
    'C04': dict(level='proof', units=['U09k', 'U09v', 'U09m', 'U10', 'U19', 'U20k', 'U01', 'U29', 'U31k', 'U32k', 'U33', 'U27k', 'U28k', 'U41k'],
                level_text='complete Kani proofs of accumulate/combine kernels; Verus proofs of dedup-merge / merge_drop / merge_keep kernels and bitmap primitives',
                level_note='hash-map grouping is covered by bounded Kani harnesses against an assumed map contract (A-hashmap), bit-packed key construction by an induction step (U32k) and width accounting (U31k); the final pass (collect_aliased, executor) is not covered',
                technique='contract-based deductive verification (Verus + Kani complete harnesses) of extracted functions; hash-map grouping and the merge plan of partial results by bounded Kani harnesses (labelled bounded)',
                assumptions=[], not_covered=['hashmap_grouping* beyond 4 rows and the hashing itself (A-hashmap)', 'try_bitpacking beyond the width accounting of U31k']),
    'C05': dict(level='proof', units=['U10', 'U11', 'U12k', 'U13k', 'U26', 'U29', 'U33', 'U35k', 'U27k', 'U36', 'U28k'],
                level_text='Verus proof of merge (sorted, stable, limit) and of the sort kernels against assumed contracts of the std sorts (stable where stability is asked for, NULLs last / first when descending), complete Kani proofs of integer/float comparators and LIMIT/OFFSET window arithmetic; string comparators bounded',
                level_note='the std sorts themselves are assumed (A-std-sort); the top-n driver is covered for seven fixed shapes only (bounded), the planner choice between sort and top-n and the plan that merges two sorted partial results by bounded Kani checks over recording planner stand-ins',
                technique='contract-based deductive verification (Verus + Kani) of extracted functions',
                assumptions=[], not_covered=['bodies of slice::sort_by / sort_unstable_by', 'TopN beyond the fixed shapes of U35k', 'NormalFormQuery::run sort requests other than the slices of U27k']),
    'C03': dict(level='proof', units=['U01', 'U05k', 'U06k', 'U07k', 'U08v', 'U19', 'U25k', 'U34n', 'U36', 'U40k'],
                level_text='complete Kani proofs of comparison kernels and constant translation; Verus proof of null bitmap primitives and filter kernels; Kani proof that the planner rewrite makes a binary operator NULL exactly where an operand is NULL; bounded Kani check of string comparisons on dictionary indices',
                level_note='compile_expr glue other than the NULL rewrite and dictionaries larger than 3 entries are not covered; LIKE is covered only by a bounded native enumeration of its pattern translation (patterns and subjects of <= 4 characters), not by a proof',
                technique='contract-based deductive verification (Kani complete harnesses + Verus) of extracted / path-included real code; LIKE translation by a bounded native enumeration against the real regex crate (U34n, labelled bounded)',
                assumptions=[], not_covered=[]),
    'C06': dict(level='proof', units=['U08k', 'U08v', 'U09k', 'U09v', 'U09m'],
                level_text='complete (loop-free, full-domain) Kani proofs of the checked arithmetic kernels',
                level_note='planner choice of checked vs unchecked node is not covered',
                technique='contract-based deductive verification (Kani complete harnesses) of the real operator file',
                assumptions=[], not_covered=[]),
    'C01': dict(level='proof', units=['U01', 'U02', 'U03', 'U04k', 'U04v', 'U23k'], thorough_units=['U02w'],
                level_text='Verus proofs (all inputs, all iterations) of contracts on the real kernels extracted from /repo each run',
                level_note='kernel contracts are proved; planner/executor glue, pco/lz4, CSV loader are named as unverified in evidence',
                technique='contract-based deductive verification (Verus) of mechanically extracted functions',
                assumptions=[], not_covered=[]),
}

NOT_APPLICABLE = {
    'C09': 'crash points lie between file-system effects; a function contract has no state there and neither verifier models partial execution or a file system',
    'C10': 'quantifies over thread schedules; Kani has no threads and Verus would need the locks of Table rewritten into permission types, i.e. a model, which this family excludes',
    'C11': 'bounded-time completion, worker survival and lock poisoning are liveness / whole-pool facts; only kernel panic-freedom is in reach and is counted under C01-C07',
    'C17': 'the HTTP handlers are actix/tokio glue with no kernel of their own; their value-level content is C16',
    'C18': 'directory contents and condvar wake-up after a multi-threaded history are file-system/concurrency facts outside function contracts',
}
