"""Registry: units under contract and the property -> unit map (DESIGN.md sections 3 and 4)."""

TRUSTED_TOOLS = [
    'Verus 0.2026.09.13 + vstd specs (Vec, slice, Option, integer ops) + bundled Z3',
    'Kani 0.68 / CBMC 6.11 + solver named per harness',
    'rustc 1.98.1 (Verus front end), Kani nightly-2026-08-21',
    'vx extractor (python): item lookup by path, declared rewrite rules, erasure check ties generated text to /repo',
    'machine arithmetic: any overflow is a failed obligation (debug/test-profile semantics)',
]

UNITS = {
    'U01': dict(kind='verus', tpl='contracts/U01_bitvec.vx',
                title='src/bitvec.rs: BitVecMut::{set,unset}, BitVec::is_set (Vec<u8>, [u8])',
                assumptions=[], not_covered=[]),
}

PROPS = {
    'C01': dict(level='proof', units=['U01'],
                level_text='Verus proofs (all inputs, all iterations) of contracts on the real kernels extracted from /repo each run',
                level_note='kernel contracts are proved; planner/executor glue, pco/lz4, CSV loader are named as unverified in evidence',
                technique='contract-based deductive verification (Verus) of mechanically extracted functions',
                assumptions=[], not_covered=[]),
}

NOT_APPLICABLE = {
    'C09': 'crash points lie between file-system effects; a function contract has no state there and neither verifier models partial execution or a file system',
    'C10': 'quantifies over thread schedules; Kani has no threads and Verus would need the locks of Table rewritten into permission types, i.e. a model, which this family excludes',
    'C11': 'bounded-time completion, worker survival and lock poisoning are liveness / whole-pool facts; only kernel panic-freedom is in reach and is counted under C01-C07',
    'C17': 'the HTTP handlers are actix/tokio glue with no kernel of their own; their value-level content is C16',
    'C18': 'directory contents and condvar wake-up after a multi-threaded history are file-system/concurrency facts outside function contracts',
    'C02': 'check under construction in this session (merge kernels U09/U10/U13); not claimed until its quick command passes',
    'C03': 'check under construction in this session; not claimed until its quick command passes',
    'C04': 'check under construction in this session; not claimed until its quick command passes',
    'C05': 'check under construction in this session; not claimed until its quick command passes',
    'C06': 'check under construction in this session; not claimed until its quick command passes',
    'C07': 'check under construction in this session; not claimed until its quick command passes',
    'C08': 'check under construction in this session; not claimed until its quick command passes',
    'C12': 'check under construction in this session; not claimed until its quick command passes',
    'C13': 'check under construction in this session; not claimed until its quick command passes',
    'C14': 'check under construction in this session; not claimed until its quick command passes',
    'C15': 'check under construction in this session; not claimed until its quick command passes',
    'C16': 'check under construction in this session; not claimed until its quick command passes',
}
