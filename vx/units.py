"""Registry: units under contract and the property -> unit map (DESIGN.md sections 3 and 4)."""

TRUSTED_TOOLS = [
    'Verus 0.2026.09.13 + vstd specs (Vec, slice, Option, integer ops) + bundled Z3',
    'Kani 0.68 / CBMC 6.11 + solver named per harness',
    'rustc 1.98.1 (Verus front end), Kani nightly-2026-08-21',
    'vx extractor (python): item lookup by path, declared rewrite rules, erasure check ties generated text to /repo',
    'machine arithmetic: any overflow is a failed obligation (debug/test-profile semantics)',
]

_T4 = ['u8', 'u16', 'u32', 'i64']


def _pairs(prefix, solver, clause, quick=('i64_i64', 'u8_i64', 'i64_u32', 'u32_u16')):
    hs = []
    for a in _T4:
        for b in _T4:
            n = '%s_%s_%s' % (prefix, a, b)
            hs.append(dict(name='proofs::' + n, solver=solver, clause=clause, fn='%s<%s,%s>::perform_checked' % (prefix, a, b),
                           thorough_only=('%s_%s' % (a, b)) not in quick))
    return hs


UNITS = {
    'U08k': dict(kind='kani', crate='kani/U08', needs_lock=True,
                 title='numeric_operators.rs: CheckedBinaryOp::perform_checked for + - * / % over {u8,u16,u32,i64}^2 (complete: loop-free, full operand domain)',
                 path_includes=['src/engine/operators/numeric_operators.rs'],
                 harnesses=_pairs('add', 'cadical', 'no panic; !flag ==> v == l + r in Z; flag <==> l + r does not fit i64')
                 + _pairs('sub', 'cadical', 'no panic; !flag ==> v == l - r in Z; flag <==> l - r does not fit i64')
                 + _pairs('mul', 'z3', 'no panic; !flag ==> Some(v) == checked_mul(l, r); flag <==> checked_mul(l, r) is None')
                 + _pairs('div', 'z3', 'no panic; r == 0 ==> flag; !flag ==> v == l / r (truncated); flag ==> r == 0 or quotient does not fit or equals the NULL marker')
                 + _pairs('mod', 'z3', 'no panic; r == 0 <==> flag; !flag ==> v == l rem r')
                 + [dict(name='proofs::vx_canary', solver='cadical', expect_fail=True)],
                 assumptions=['num::ToPrimitive::to_i64 is compiled and executed symbolically by CBMC (not assumed)'],
                 not_covered=['Multiplication<_,_,OrderedFloat<f64>> (floating point)']),
    'U01': dict(kind='verus', tpl='contracts/U01_bitvec.vx',
                title='src/bitvec.rs: BitVecMut::{set,unset}, BitVec::is_set (Vec<u8>, [u8])',
                assumptions=[], not_covered=[]),
}

PROPS = {
    'C06': dict(level='proof', units=['U08k'],
                level_text='complete (loop-free, full-domain) Kani proofs of the checked arithmetic kernels',
                level_note='planner choice of checked vs unchecked node is not covered',
                technique='contract-based deductive verification (Kani complete harnesses) of the real operator file',
                assumptions=[], not_covered=[]),
    'C01': dict(level='proof', units=['U01'],
                level_text='Verus proofs (all inputs, all iterations) of contracts on the real kernels extracted from /repo each run',
                level_note='kernel contracts are proved; planner/executor glue, pco/lz4, CSV loader are named as unverified in evidence',
                technique='contract-based deductive verification (Verus) of mechanically extracted functions',
                assumptions=[], not_covered=[]),
}

NOT_APPLICABLE = {
    'C09': 'crash points lie between file-system effects; a function contract has no state there and neither verifier models partial execution or a file system',
    'C10': 'quantifies over thread schedules; Kani has no threads and Verus would need the locks of Table rewritten into permission types, i.e. a model, which this family excludes',
    'C11': 'bounded-time completion, worker survival and lock poisoning are liveness / whole-pool facts; only kernel panic-freedom is in reach and is counted under C01-C07',
    'C17': 'the HTTP handlers are actix/tokio glue with no kernel of their own; their value-level content is C16',
    'C18': 'directory contents and condvar wake-up after a multi-threaded history are file-system/concurrency facts outside function contracts',
    'C02': 'check under construction in this session (merge kernels U09/U10/U13); not claimed until its quick command passes',
    'C03': 'check under construction in this session; not claimed until its quick command passes',
    'C04': 'check under construction in this session; not claimed until its quick command passes',
    'C05': 'check under construction in this session; not claimed until its quick command passes',
    'C06': 'check under construction in this session; not claimed until its quick command passes',
    'C07': 'check under construction in this session; not claimed until its quick command passes',
    'C08': 'check under construction in this session; not claimed until its quick command passes',
    'C12': 'check under construction in this session; not claimed until its quick command passes',
    'C13': 'check under construction in this session; not claimed until its quick command passes',
    'C14': 'check under construction in this session; not claimed until its quick command passes',
    'C15': 'check under construction in this session; not claimed until its quick command passes',
    'C16': 'check under construction in this session; not claimed until its quick command passes',
}
