"""vx generator: template (.vx) + /repo working tree  ->  verifier input file + metadata.

A template is a Rust/Verus file.  Lines starting with `//@` are directives; everything else is copied
verbatim (spec functions, lemmas, shims -- hand-written text that is listed as such in evidence).

Directive block
    //@item <file> :: <segment> [:: <segment>...]     extract this item from /repo (by path, never by line)
    //@ret <name>                       name the return value of the current target fn  (rule R0)
    //@in <segment> [:: <segment>]      make a nested fn the target of the following clauses (`//@in .` = item itself)
    //@only <segment>, <segment>        container items: keep only these members (others listed as dropped)
    //@drop <segment>                   container items: drop this member
    //@member <text>                    add a (tagged) line at the start of the container body
    //@rw <RULE> /regex/ => /repl/      declared text rewrite on the extracted (comment-free) text
    //@until N "pat"                    (slices) the slice ends just before the N-th occurrence of pat after its start
    //@requires [id] expr               precondition of the target fn
    //@ensures [id] expr                postcondition
    //@inv <n> [id] expr                invariant of the n-th loop (source order) of the target fn
    //@dec <n> expr                     decreases of the n-th loop
    //@fndec expr                       decreases of the fn
    //@proof <where> : text             where = bodystart | bodyend | loopstart N | loopend N | before N "tokens" | after N "tokens"
    //@    text                         (4+ spaces) continuation of the previous directive
    //@end
Automatic rules on every extracted item: R1 (attributes / restricted visibility), R2 (panic & assert
macros), R3 (logging statements).
"""
import hashlib
import os
import re
import sys

sys.path.insert(0, os.path.dirname(os.path.abspath(__file__)))
from rustlex import (code_tokens, lex, strip_comments, find_item, match_close, iter_items, header_matches,
                     find_deep, LexError)

REPO = os.environ.get('VX_REPO', '/repo')


class GenError(Exception):
    """Anything that makes the unit undecided (exit 2): lost anchor, unsupported construct, bad template."""


def sha256(s):
    return hashlib.sha256(s.encode()).hexdigest()


def keep_lines(old, new):
    """Pad `new` with the newlines that `old` had so that line numbers stay aligned."""
    d = old.count('\n') - new.count('\n')
    return new + ('\n' * d if d > 0 else '')


# ----------------------------------------------------------------------------------------------
# automatic rules

LOG_MACROS = {'error', 'warn', 'info', 'debug', 'trace', 'println', 'eprintln', 'print', 'eprint'}
PANIC_MACROS = {'panic', 'unreachable', 'unimplemented', 'todo'}
ASSERT_MACROS = {'assert', 'debug_assert'}
ASSERT_EQ_MACROS = {'assert_eq', 'debug_assert_eq'}
ASSERT_NE_MACROS = {'assert_ne', 'debug_assert_ne'}
DROP_ATTRS = {'derive', 'inline', 'allow', 'must_use', 'doc', 'default', 'cold', 'rustfmt', 'repr', 'warn', 'deny'}


def split_top_commas(toks, lo, hi):
    """split toks[lo:hi] at top-level commas -> list of (a, b) token index ranges"""
    parts, depth, a = [], 0, lo
    for k in range(lo, hi):
        t = toks[k]
        if t.kind == 'punct':
            if t.text in '([{':
                depth += 1
            elif t.text in ')]}':
                depth -= 1
            elif t.text == ',' and depth == 0:
                parts.append((a, k))
                a = k + 1
    if a < hi:
        parts.append((a, hi))
    return parts


def apply_edits(text, edits):
    """edits: list of (start, end, replacement); non-overlapping."""
    out, last = [], 0
    for s, e, r in sorted(edits):
        if s < last:
            raise GenError('overlapping edits')
        out.append(text[last:s])
        out.append(keep_lines(text[s:e], r))
        last = e
    out.append(text[last:])
    return ''.join(out)


def pub_rule(text, fired):
    """R1: top-level struct/enum and their named fields become `pub` (visibility only; Verus requires contract
    expressions of pub fns to be well-formed everywhere)."""
    toks = code_tokens(text)
    edits = []
    for it in iter_items(toks, 0, len(toks)):
        kw = toks[it.h0].text
        if kw in ('struct', 'enum', 'trait') and (it.h0 == 0 or toks[it.h0 - 1].text != 'pub') and \
                not (it.h0 >= 1 and toks[it.h0 - 1].text == ')'):
            edits.append((toks[it.h0].start, toks[it.h0].start, 'pub '))
            fired['R1'] = fired.get('R1', 0) + 1
        if kw == 'struct' and it.open_i is not None:
            k = it.open_i + 1
            depth = 0
            while k < it.close_i:
                t = toks[k]
                if t.kind == 'punct' and t.text in '([{<':
                    depth += 1
                elif t.kind == 'punct' and t.text in ')]}>' and not (t.text == '>' and toks[k - 1].text == '-'):
                    depth -= 1
                elif depth == 0 and t.kind == 'ident' and toks[k + 1].text == ':' and toks[k + 2].text != ':' \
                        and toks[k - 1].text in ('{', ','):
                    edits.append((t.start, t.start, 'pub '))
                    fired['R1'] = fired.get('R1', 0) + 1
                k += 1
        break
    return apply_edits(text, edits)


def auto_rules(text, fired):
    text = pub_rule(text, fired)
    toks = code_tokens(text)
    edits = []
    n = len(toks)
    i = 0
    while i < n:
        t = toks[i]
        # R1 attributes
        if t.text == '#' and i + 1 < n and toks[i + 1].text == '[':
            c = match_close(toks, i + 1)
            name = toks[i + 2].text if i + 2 < n else ''
            if name in DROP_ATTRS:
                keep = ''
                if name == 'derive':
                    names = [x.text for x in toks[i + 3:c] if x.kind == 'ident']
                    if 'Copy' in names and 'Clone' in names:
                        keep = '#[derive(Clone, Copy)]'  # Copy-ness is part of the type's meaning; other derives are dropped
                edits.append((t.start, toks[c].end, keep))
                fired['R1'] = fired.get('R1', 0) + 1
            elif name == 'cfg':
                raise GenError('unsupported #[cfg] inside extracted item')
            i = c + 1
            continue
        if t.text == 'pub' and i + 1 < n and toks[i + 1].text == '(':
            c = match_close(toks, i + 1)
            edits.append((toks[i + 1].start, toks[c].end, ''))
            fired['R1'] = fired.get('R1', 0) + 1
            i = c + 1
            continue
        # macros:  [path ::] name ! ( ... )
        if t.kind == 'ident' and i + 2 < n and toks[i + 1].text == '!' and toks[i + 2].text in '([{' \
                and toks[i + 2].kind == 'punct':
            name = t.text
            c = match_close(toks, i + 2)
            start = t.start
            # allow `log::debug!`
            if i >= 3 and toks[i - 1].text == ':' and toks[i - 2].text == ':' and toks[i - 3].text == 'log':
                start = toks[i - 3].start
            if name in LOG_MACROS:
                end = toks[c].end
                if c + 1 < n and toks[c + 1].text == ';':
                    end = toks[c + 1].end
                else:
                    # expression position (e.g. match arm): replace by unit
                    edits.append((start, end, '()'))
                    fired['R3'] = fired.get('R3', 0) + 1
                    i = c + 1
                    continue
                edits.append((start, end, ''))
                fired['R3'] = fired.get('R3', 0) + 1
                i = c + 1 + 1
                continue
            if name in PANIC_MACROS:
                edits.append((start, toks[c].end, 'vx_panic()'))
                fired['R2'] = fired.get('R2', 0) + 1
                i = c + 1
                continue
            if name in ASSERT_MACROS | ASSERT_EQ_MACROS | ASSERT_NE_MACROS:
                parts = split_top_commas(toks, i + 3, c)
                def txt(p):
                    return text[toks[p[0]].start:toks[p[1] - 1].end]
                if name in ASSERT_MACROS:
                    new = 'assert(%s)' % txt(parts[0])
                elif name in ASSERT_EQ_MACROS:
                    new = 'assert(%s == %s)' % (txt(parts[0]), txt(parts[1]))
                else:
                    new = 'assert(%s != %s)' % (txt(parts[0]), txt(parts[1]))
                edits.append((start, toks[c].end, new))
                fired['R2'] = fired.get('R2', 0) + 1
                i = c + 1
                continue
        i += 1
    return apply_edits(text, edits)


# ----------------------------------------------------------------------------------------------
# R6: scratchpad binding lifting;  R11: loop-header desugaring of slice iterator adapters

R6_LET = re.compile(r'[ \t]*let\s+(?:mut\s+)?(?:\w+|\([^)]*\))\s*=\s*scratchpad\s*\.[^;]*;[ \t]*\n?')
R6_SCALAR = re.compile(r'scratchpad\s*\.\s*get_scalar\(\s*&self\.(\w+)\s*\)')


def rule_r6(text, newsig, fired):
    """`fn execute(&mut self, .., scratchpad) -> R {` becomes `fn <newsig> -> R {`; `let x = scratchpad.get*(self.f);`
    statements are dropped (x becomes a parameter); `scratchpad.get_scalar(&self.f)` becomes the parameter `f`."""
    m = re.search(r'fn\s+execute\s*\([^)]*\)', text)
    if not m:
        raise GenError('R6: no `fn execute(...)` in item')
    text = text[:m.start()] + keep_lines(m.group(0), 'fn ' + newsig) + text[m.end():]
    n = [0]

    def drop(mo):
        n[0] += 1
        return keep_lines(mo.group(0), '')
    text, k = R6_SCALAR.subn(lambda mo: mo.group(1), text)
    text = R6_LET.sub(drop, text)
    fired['R6'] = fired.get('R6', 0) + 1 + n[0] + k
    return text


def _bind(pat, expr):
    pat = pat.strip()
    if pat.startswith('&'):
        return 'let %s = %s;' % (pat[1:].strip(), expr)
    return 'let %s = &%s;' % (pat, expr)


R11_ZIP_ENUM = re.compile(r'for\s*\(\s*(\w+)\s*,\s*\(\s*(&?\w+)\s*,\s*(&?\w+)\s*\)\s*\)\s*in\s+(\w+)\.iter\(\)\.zip\((\w+)\.iter\(\)\)\.enumerate\(\)\s*\{')
R11_ZIP = re.compile(r'for\s*\(\s*(&?\w+)\s*,\s*(&?\w+)\s*\)\s*in\s+(\w+)\.iter\(\)\.zip\((\w+)\.iter\(\)\)\s*\{')
R11_ENUM = re.compile(r'for\s*\(\s*(\w+)\s*,\s*(&?\w+)\s*\)\s*in\s+(\w+)\.iter\(\)\.enumerate\(\)\s*\{')
R11_TAKE_ENUM = re.compile(r'for\s*\(\s*(\w+)\s*,\s*(&?\w+)\s*\)\s*in\s+(\w+)\.iter\(\)\.take\(([^{}]*?)\)\.enumerate\(\)\s*\{')
R11_MUTSLICE = re.compile(r'for\s+(\w+)\s+in\s+&mut\s+(\w+)\[(\w+)\.\.\]\s*\{')
R11_REF = re.compile(r'for\s+&(\w+)\s+in\s+(\w+)\.iter\(\)\s*\{')
R11_PLAIN = re.compile(r'for\s+(\w+)\s+in\s+(\w+)\.iter\(\)\s*\{')


def rule_r11(text, fired):
    n = [0]

    def c(f):
        def g(mo):
            n[0] += 1
            return keep_lines(mo.group(0), f(mo))
        return g
    text = R11_ZIP_ENUM.sub(c(lambda m: 'for vx_k in 0..vx_min(%s.len(), %s.len()) { let %s = vx_k; %s %s' % (
        m.group(4), m.group(5), m.group(1), _bind(m.group(2), m.group(4) + '[vx_k]'), _bind(m.group(3), m.group(5) + '[vx_k]'))), text)
    text = R11_ZIP.sub(c(lambda m: 'for vx_k in 0..vx_min(%s.len(), %s.len()) { %s %s' % (
        m.group(3), m.group(4), _bind(m.group(1), m.group(3) + '[vx_k]'), _bind(m.group(2), m.group(4) + '[vx_k]'))), text)
    text = R11_TAKE_ENUM.sub(c(lambda m: 'for %s in 0..vx_min(%s.len(), %s) { %s' % (m.group(1), m.group(3), m.group(4), _bind(m.group(2), '%s[%s]' % (m.group(3), m.group(1))))), text)
    text = R11_ENUM.sub(c(lambda m: 'for %s in 0..%s.len() { %s' % (m.group(1), m.group(3), _bind(m.group(2), '%s[%s]' % (m.group(3), m.group(1))))), text)
    text = R11_MUTSLICE.sub(c(lambda m: 'let vx_n = %s.len(); for vx_k in %s..vx_n { let %s = &mut %s[vx_k];' % (m.group(2), m.group(3), m.group(1), m.group(2))), text)
    text = R11_REF.sub(c(lambda m: 'for vx_k in 0..%s.len() { let %s = %s[vx_k];' % (m.group(2), m.group(1), m.group(2))), text)
    text = R11_PLAIN.sub(c(lambda m: 'for vx_k in 0..%s.len() { let %s = &%s[vx_k];' % (m.group(2), m.group(1), m.group(2))), text)
    if n[0]:
        fired['R11'] = fired.get('R11', 0) + n[0]
    return text


class Clause:
    def __init__(self, cid, kind, text, fn, tpl_line):
        self.id, self.kind, self.text, self.fn, self.tpl_line = cid, kind, text, fn, tpl_line
        self.gen_lines = []


class ItemBlock:
    def __init__(self, file, path, tpl_line):
        self.file, self.path, self.tpl_line = file, path, tpl_line
        self.directives = []  # (kind, arg, tpl_line)
        self.is_slice = False


def expand_includes(tpl_text, tpl_dir, label=None, depth=0):
    """-> list of (origin label, line text); //@include lines are replaced by the file's lines (recursively)."""
    if depth > 5:
        raise GenError('include depth')
    out = []
    for ln, line in enumerate(tpl_text.split('\n'), 1):
        s = line.strip()
        if s.startswith('//@include '):
            f = s[len('//@include '):].strip()
            out.extend(expand_includes(open(os.path.join(tpl_dir, f)).read(), tpl_dir, f, depth + 1))
        else:
            out.append(('%s:%d' % (label, ln) if label else ln, line))
    return out


def parse_template(tpl_text, tpl_dir='.'):
    """-> list of ('text', line_no, text) | ('item', ItemBlock) | ('mode', m)"""
    parts = []
    cur = None
    last_dir = None
    for ln, line in expand_includes(tpl_text, tpl_dir):
        s = line.strip()
        if s.startswith('//@'):
            body = s[3:]
            if body.startswith('    ') or body.startswith('\t'):
                if last_dir is None:
                    raise GenError('template line %s: continuation without directive' % ln)
                last_dir[1] += '\n' + body.strip()
                continue
            body = body.strip()
            if not body:
                continue
            word, _, arg = body.partition(' ')
            arg = arg.strip()
            if word == 'mode':
                parts.append(('mode', arg))
                continue
            if word == 'scan' and cur is None:
                parts.append(('scan', ln, arg))
                continue
            if word in ('item', 'slice'):
                if cur is not None:
                    raise GenError('template line %s: //@item inside open block' % ln)
                segs = [x.strip() for x in arg.split(' :: ')]
                cur = ItemBlock(segs[0], segs[1:], ln)
                cur.is_slice = (word == 'slice')
                parts.append(('item', cur))
                last_dir = None
            elif word == 'end':
                cur = None
                last_dir = None
            else:
                if cur is None:
                    raise GenError('template line %s: directive outside //@item block' % ln)
                last_dir = [word, arg, ln]
                cur.directives.append(last_dir)
        else:
            if cur is not None and s and not s.startswith('//'):
                raise GenError('template line %s: plain text inside //@item block (missing //@end?)' % ln)
            if cur is None:
                parts.append(('text', ln, line))
    if cur is not None:
        raise GenError('unterminated //@item block at template line %s' % cur.tpl_line)
    return parts


CLAUSE_ID = re.compile(r'^\[([A-Za-z0-9_.\-]+)\]\s*(.*)$', re.S)


def fn_name_of(seg):
    m = re.search(r'\bfn\s+([A-Za-z0-9_]+)', seg)
    return m.group(1) if m else re.sub(r'\W+', '_', seg).strip('_')


class Target:
    """A fn (with or without body) inside the item text."""

    def __init__(self, item):
        self.item = item


def locate(text, segs):
    toks = code_tokens(text)
    top = None
    for it in iter_items(toks, 0, len(toks)):
        top = it
        break
    if top is None:
        raise GenError('empty item')
    it = top
    for seg in segs:
        nth = 1
        m = re.match(r'^(.*)#(\d+)$', seg)
        if m:
            seg, nth = m.group(1).strip(), int(m.group(2))
        if it.open_i is None:
            raise GenError('cannot descend into item without body for %r' % seg)
        found, cnt = None, 0
        for sub in iter_items(toks, it.open_i + 1, it.close_i):
            if header_matches(sub, seg):
                cnt += 1
                if cnt == nth:
                    found = sub
                    break
        if found is None:
            found = find_deep(toks, it.open_i + 1, it.close_i, seg)
        if found is None:
            raise GenError('anchor lost: nested %r' % seg)
        it = found
    return it, toks


def find_loops(toks, lo, hi):
    """loops in toks[lo:hi] in source order -> list of (kw_index, open_index, close_index)"""
    res = []
    k = lo
    while k < hi:
        t = toks[k]
        if t.kind == 'ident' and t.text in ('while', 'for', 'loop'):
            if t.text == 'for' and k + 1 < hi and toks[k + 1].text == '<':
                k += 1
                continue
            j = k + 1
            ok = False
            while j < hi:
                tj = toks[j]
                if tj.kind == 'punct':
                    if tj.text in '([':
                        j = match_close(toks, j) + 1
                        continue
                    if tj.text == '{':
                        ok = True
                        break
                    if tj.text == ';':
                        break
                j += 1
            if ok:
                res.append((k, j, match_close(toks, j)))
        k += 1
    return res


def line_start(text, pos):
    return text.rfind('\n', 0, pos) + 1


def line_end(text, pos):
    e = text.find('\n', pos)
    return len(text) if e < 0 else e


def tag_lines(txt, tag, indent='    '):
    return ''.join('%s%s //vx:%s\n' % (indent, l, tag) for l in txt.split('\n'))


def extract_item(block, unit, fired_total, clauses, meta_items, mode='verus'):
    path = os.path.join(REPO, block.file)
    try:
        src = open(path).read()
    except OSError as e:
        raise GenError('anchor lost: cannot read %s: %s' % (block.file, e))
    it, toks = find_item(src, block.path)
    if it is None:
        raise GenError('anchor lost: %s :: %s' % (block.file, ' :: '.join(block.path)))
    orig = src[it.start:it.end]
    start_line = src.count('\n', 0, it.start) + 1
    slice_desc = None
    if block.is_slice:
        if it.open_i is None:
            raise GenError('slice of fn without body')
        def dget(word):
            v = [a for (w, a, _) in block.directives if w == word]
            return v[0] if v else None
        def find_stmt(spec, lo_tok):
            mm = re.match(r'^(\d+)\s+"(.*)"$', spec.strip(), re.S)
            if not mm:
                raise GenError('bad //@from///@to: %r' % spec)
            nth, ptoks = int(mm.group(1)), [t.text for t in code_tokens(mm.group(2))]
            cnt = 0
            for k in range(lo_tok, it.close_i - len(ptoks) + 1):
                if toks[k].text == ptoks[0] and [t.text for t in toks[k:k + len(ptoks)]] == ptoks:
                    cnt += 1
                    if cnt == nth:
                        return k
            raise GenError('anchor lost: slice pattern %s in %s' % (spec, ' :: '.join(block.path)))
        a = find_stmt(dget('from'), it.open_i + 1) + int(dget('skip') or 0)
        b = find_stmt(dget('to'), a) if dget('to') else a
        is_expr = any(w == 'expr' for (w, _, _) in block.directives)
        # end of statement starting at b: `;` at depth 0, or a closing `}` of a block statement at depth 0
        k, depth, end = b, 0, None
        while k < it.close_i:
            t = toks[k]
            if t.kind == 'punct':
                if t.text in '([{':
                    depth += 1
                elif t.text in ')]}':
                    depth -= 1
                    if depth < 0:
                        # trailing expression of the enclosing block (no `;`)
                        end = k - 1
                        break
                    if depth == 0 and t.text == '}' and toks[k + 1].text not in (';', '.', '?', 'else') :
                        end = k
                        break
                elif t.text == ';' and depth == 0:
                    end = k
                    break
            k += 1
        if is_expr:
            # expression slice: from the pattern up to (excluding) the first `{` at depth 0 (an if / else-if condition)
            k, depth, end = a, 0, None
            while k < it.close_i:
                t = toks[k]
                if t.kind == 'punct':
                    if t.text in '([':
                        depth += 1
                    elif t.text in ')]':
                        depth -= 1
                        if depth < 0:
                            end = k - 1
                            break
                    elif t.text == '{' and depth == 0 and not any(w == 'braces' for (w, _, _) in block.directives):
                        end = k - 1
                        break
                    elif t.text in (',', ';') and depth == 0:
                        end = k - 1
                        break
                    elif t.text == '{':
                        depth += 1
                    elif t.text == '}':
                        depth -= 1
                        if depth < 0:
                            end = k - 1
                            break
                k += 1
        if dget('until'):
            # statement slice ending just before the (first) statement that starts with the pattern
            end = find_stmt(dget('until'), a) - 1
        if end is None:
            raise GenError('slice end not found')
        orig = src[toks[a].start:toks[end].end]
        start_line = src.count('\n', 0, toks[a].start) + 1
        slice_desc = {'from': dget('from'), 'to': dget('to'), 'enclosing': ' :: '.join(block.path)}
    fired = {}
    text = strip_comments(orig)
    # member selection first (so rules do not choke on dropped members)
    only = [a for (w, a, _) in block.directives if w == 'only']
    drops = [a for (w, a, _) in block.directives if w == 'drop']
    dropped_names = []
    if only or drops:
        keep = [s.strip() for a in only for s in a.split(',')]
        dr = [s.strip() for a in drops for s in a.split(',')]
        top, tk = locate(text, [])
        edits = []
        for sub in iter_items(tk, top.open_i + 1, top.close_i):
            hdr = ' '.join(sub.header_texts()[:6])
            k = any(header_matches(sub, s) for s in keep) if keep else True
            if any(header_matches(sub, s) for s in dr):
                k = False
            if not k:
                edits.append((sub.start, sub.end, ''))
                dropped_names.append(hdr)
        for s in keep:
            if not any(header_matches(sub, s) for sub in iter_items(tk, top.open_i + 1, top.close_i)):
                raise GenError('anchor lost: member %r of %s' % (s, ' :: '.join(block.path)))
        text = apply_edits(text, edits)
    if mode == 'verus':
        text = auto_rules(text, fired)
    rw_log = []
    for (w, a, ln) in block.directives:
        if w == 'r6':
            text = rule_r6(text, a, fired)
        elif w == 'r11':
            text = rule_r11(text, fired)
    for (w, a, ln) in block.directives:
        if w == 'rw':
            m = re.match(r'^(\S+)\s+/(.*)/\s*=>\s*/(.*)/\s*(\{(\d+)(?:,(\d+))?\})?$', a, re.S)
            if not m:
                raise GenError('template line %s: bad //@rw' % ln)
            rule, pat, rep = m.group(1), m.group(2), m.group(3).replace('\\/', '/').replace('\\&', '&')
            cnt = [0]

            def f(mo):
                cnt[0] += 1
                return keep_lines(mo.group(0), mo.expand(rep))
            text = re.sub(pat, f, text, flags=re.S | re.M)
            lo = int(m.group(5)) if m.group(5) else 0
            hi_ = int(m.group(6)) if m.group(6) else (lo if m.group(5) else None)
            if cnt[0] < lo or (hi_ is not None and cnt[0] > hi_):
                raise GenError('anchor lost: rewrite %s /%s/ fired %d times in %s (expected %s)' % (
                    rule, pat, cnt[0], ' :: '.join(block.path), m.group(4) or '>=1'))
            fired[rule] = fired.get(rule, 0) + cnt[0]
            rw_log.append({'rule': rule, 'pattern': pat, 'replacement': rep, 'hits': cnt[0]})
    if block.is_slice:
        head = '\n'.join(a for (w, a, _) in block.directives if w == 'head')
        tail = '\n'.join(a for (w, a, _) in block.directives if w == 'tail')
        mname = re.search(r'\bfn\s+(\w+)', head)
        wtag = '%s.%s.wrap' % (unit, mname.group(1) if mname else 'slice')
        text = tag_lines(head, wtag, '') + text + '\n' + tag_lines(tail, wtag, '')
    if mode == 'verus':
        # R13: name the ghost iterator of every `for` loop: `for P in E {` -> `for P in vx_it<k>: E {`
        tk = code_tokens(text)
        edits = []
        k = 0
        for (kw, op, cl) in find_loops(tk, 0, len(tk)):
            if tk[kw].text != 'for':
                continue
            k += 1
            # find `in` at depth 0 between kw and op
            j = kw + 1
            while j < op:
                if tk[j].kind == 'punct' and tk[j].text in '([':
                    j = match_close(tk, j) + 1
                    continue
                if tk[j].kind == 'ident' and tk[j].text == 'in':
                    break
                j += 1
            if j >= op:
                continue
            if tk[j + 2].text == ':' and tk[j + 3].text != ':':
                continue  # already named
            edits.append((tk[j].end, tk[j].end, ' vx_it%d:' % k))
            fired['R13'] = fired.get('R13', 0) + 1
        text = apply_edits(text, edits)
    # R0 return naming (in place, before injection)
    cur_segs = []
    rets = []
    for (w, a, ln) in block.directives:
        if w == 'in':
            cur_segs = [] if a == '.' else [x.strip() for x in a.split('::')]
            cur_segs = [x for x in (s.strip() for s in a.split(' :: ')) if x and x != '.']
        elif w == 'ret':
            rets.append((list(cur_segs), a, ln))
        elif w == 'semi':
            # R12: the fn's tail expression has unit type; terminate it with `;` so that proof text can follow
            tgt, tk = locate(text, cur_segs)
            if tgt.open_i is None:
                raise GenError('template line %s: //@semi on fn without body' % ln)
            lt = tk[tgt.close_i - 1]
            if lt.text not in (';', '}', '{'):
                text = text[:lt.end] + ';' + text[lt.end:]
                fired['R12'] = fired.get('R12', 0) + 1
    for segs, name, ln in rets:
        tgt, tk = locate(text, segs)
        stop = tgt.open_i if tgt.open_i is not None else tgt.end_i
        arrow = None
        k = tgt.h0
        while k < stop:
            t = tk[k]
            if t.kind == 'punct' and t.text in '([':
                k = match_close(tk, k) + 1
                continue
            if t.text == '-' and tk[k + 1].text == '>':
                arrow = k
                break
            k += 1
        if arrow is None:
            raise GenError('template line %s: //@ret on fn without return type' % ln)
        # return type ends at `where` or body/;
        e = arrow + 2
        d = 0
        while e < stop:
            t = tk[e]
            if t.text in '([<' and t.kind == 'punct':
                d += 1
            elif t.text in ')]>' and t.kind == 'punct' and not (t.text == '>' and tk[e - 1].text == '-'):
                d -= 1
            elif t.text == 'where' and d == 0:
                break
            e += 1
        a0, a1 = tk[arrow + 2].start, tk[e - 1].end
        text = text[:a0] + '(%s: %s)' % (name, text[a0:a1]) + text[a1:]
        fired['R0'] = fired.get('R0', 0) + 1
    expected_tokens = [t.text for t in code_tokens('\n'.join(l for l in text.split('\n') if '//vx:' not in l))]

    # injections
    ins = {}  # offset -> list of text

    def add(off, txt):
        ins.setdefault(off, []).append(txt)

    cur_segs = []
    counters = {}
    blockname = ''.join(a + '.' for (w, a, _) in block.directives if w == 'name')
    groups = {}  # (tuple(segs)) -> {'requires':[], 'ensures':[], 'fndec':[], ('inv',n):[], ('dec',n):[]}
    proofs = []
    members = []
    for (w, a, ln) in block.directives:
        if w == 'in':
            cur_segs = [x for x in (s.strip() for s in a.split(' :: ')) if x and x != '.']
        elif w in ('requires', 'ensures', 'inv', 'dec', 'fndec', 'lens'):
            key = tuple(cur_segs)
            g = groups.setdefault(key, {})
            fname = fn_name_of(cur_segs[-1] if cur_segs else block.path[-1])
            n = None
            if w in ('inv', 'dec', 'lens'):
                ns, _, a = a.partition(' ')
                n = int(ns)
                a = a.strip()
            m = CLAUSE_ID.match(a)
            if m:
                cid_short = '%s.%s' % ({'requires': 'req', 'ensures': 'ens', 'inv': 'loop%s.inv' % n, 'dec': 'loop%s.dec' % n,
                                        'fndec': 'dec', 'lens': 'loop%s.ens' % n}[w], m.group(1))
                expr = m.group(2)
            else:
                ck = (fname, w, n)
                counters[ck] = counters.get(ck, 0) + 1
                cid_short = '%s%s%d' % ({'requires': 'req', 'ensures': 'ens', 'inv': 'loop%s.inv' % n,
                                         'dec': 'loop%s.dec' % n, 'fndec': 'dec', 'lens': 'loop%s.ens' % n}[w], '', counters[ck])
                expr = a
            cid = '%s.%s%s.%s' % (unit, blockname, fname, cid_short)
            cl = Clause(cid, w if n is None else '%s' % w, expr.strip().rstrip(','), fname, ln)
            cl.loop = n
            clauses.append(cl)
            g.setdefault((w, n), []).append(cl)
        elif w == 'proof':
            mm = re.match(r'^(bodystart|bodyend|tail|loopstart \d+|loopend \d+|(?:before|after) \d+ "[^"]*")\s*:\s*(.*)$', a, re.S)
            if not mm:
                raise GenError('template line %s: bad //@proof location' % ln)
            proofs.append((list(cur_segs), mm.group(1).strip(), mm.group(2).strip(), ln))
        elif w == 'member':
            members.append((list(cur_segs), a, ln))
        elif w == 'attr':
            tgt, tk = locate(text, cur_segs)
            ls = line_start(text, tk[tgt.first].start)
            add(ls, tag_lines(a, 'attr', '    '))
        elif w in ('ret', 'rw', 'only', 'drop', 'name', 'semi', 'from', 'to', 'head', 'tail', 'r6', 'r11', 'expr', 'skip', 'braces', 'until'):
            pass
        else:
            raise GenError('template line %s: unknown directive %r' % (ln, w))

    for key, g in groups.items():
        tgt, tk = locate(text, list(key))
        if tgt.open_i is not None:
            sig_off = tk[tgt.open_i].start
        else:
            sig_off = tk[tgt.end_i].start  # before `;`
        sig = ''
        for w in ('requires', 'ensures'):
            cls = g.get((w, None), [])
            if cls:
                sig += tag_lines(w, 'kw', '    ')
                for cl in cls:
                    sig += tag_lines('(' + cl.text + '),', cl.id, '        ')
        for cl in g.get(('fndec', None), []):
            sig += tag_lines('decreases ' + cl.text, cl.id, '    ')
        if sig:
            add(sig_off, '\n' + sig)
        loop_keys = sorted({n for (w, n) in g if n is not None})
        if loop_keys:
            if tgt.open_i is None:
                raise GenError('loop clauses on fn without body')
            loops = find_loops(tk, tgt.open_i + 1, tgt.close_i)
            for n in loop_keys:
                if n > len(loops):
                    raise GenError('anchor lost: loop %d of %s (found %d loops)' % (n, key or block.path[-1], len(loops)))
                kw, op, cl_i = loops[n - 1]
                itname = None
                for j in range(kw + 1, op - 2):
                    if tk[j].kind == 'ident' and tk[j].text == 'in' and tk[j + 1].text.startswith('vx_it') and tk[j + 2].text == ':':
                        itname = tk[j + 1].text
                        break
                for cl in g.get(('inv', n), []) + g.get(('dec', n), []) + g.get(('lens', n), []):
                    if '$it' in cl.text:
                        if itname is None:
                            raise GenError('$it used on a loop without ghost iterator (loop %d)' % n)
                        cl.text = cl.text.replace('$it', itname)
                s = ''
                invs = g.get(('inv', n), [])
                if invs:
                    s += tag_lines('invariant', 'kw', '        ')
                    for cl in invs:
                        s += tag_lines('(' + cl.text + '),', cl.id, '            ')
                lens = g.get(('lens', n), [])
                if lens:
                    s += tag_lines('ensures', 'kw', '        ')
                    for cl in lens:
                        s += tag_lines('(' + cl.text + '),', cl.id, '            ')
                for cl in g.get(('dec', n), []):
                    s += tag_lines('decreases ' + cl.text, cl.id, '        ')
                add(tk[op].start, '\n' + s)
    pcount = 0
    for segs, where, txt, ln in proofs:
        tgt, tk = locate(text, segs)
        if tgt.open_i is None:
            raise GenError('template line %s: proof on fn without body' % ln)
        pcount += 1
        fname = fn_name_of(segs[-1] if segs else block.path[-1])
        cid = '%s.%s%s.hint%d' % (unit, blockname, fname, pcount)
        cl = Clause(cid, 'proof', txt, fname, ln)
        cl.loop = None
        clauses.append(cl)
        tagged = tag_lines(txt, cid, '        ')
        wparts = where.split(None, 2)
        if wparts[0] == 'bodystart':
            add(tk[tgt.open_i].end, '\n' + tagged)
        elif wparts[0] == 'bodyend':
            add(tk[tgt.close_i].start, '\n' + tagged)
        elif wparts[0] == 'tail':
            # before the fn's tail expression (the last statement of the body)
            k, depth, start = tgt.open_i + 1, 0, tgt.open_i + 1
            while k < tgt.close_i:
                t = tk[k]
                if t.kind == 'punct':
                    if t.text in '([{':
                        depth += 1
                    elif t.text in ')]}':
                        depth -= 1
                        if depth == 0 and t.text == '}' and k + 1 < tgt.close_i and tk[k + 1].text not in ('.', '?', 'else', ';', ')'):
                            start = k + 1
                    elif t.text == ';' and depth == 0 and k + 1 < tgt.close_i:
                        start = k + 1
                k += 1
            ls = line_start(text, tk[start].start)
            if text[ls:tk[start].start].strip():
                raise GenError('tail expression not at line start (template line %s)' % ln)
            add(ls, tagged)
        elif wparts[0] in ('loopstart', 'loopend'):
            loops = find_loops(tk, tgt.open_i + 1, tgt.close_i)
            n = int(wparts[1])
            if n > len(loops):
                raise GenError('anchor lost: loop %d for proof (template line %d)' % (n, ln))
            kw, op, cl_i = loops[n - 1]
            add(tk[op].end if wparts[0] == 'loopstart' else tk[cl_i].start, '\n' + tagged)
        elif wparts[0] in ('before', 'after'):
            n = int(wparts[1])
            pat = wparts[2].strip()
            if not (pat.startswith('"') and pat.endswith('"')):
                raise GenError('template line %s: pattern must be quoted' % ln)
            ptoks = [t.text for t in code_tokens(pat[1:-1])]
            cnt, hit = 0, None
            for k in range(tgt.open_i + 1, tgt.close_i - len(ptoks) + 1):
                if tk[k].text == ptoks[0] and [t.text for t in tk[k:k + len(ptoks)]] == ptoks:
                    cnt += 1
                    if cnt == n:
                        hit = k
                        break
            if hit is None:
                raise GenError('anchor lost: pattern %s #%d in %s (template line %d)' % (pat, n, fname, ln))
            if wparts[0] == 'before':
                ls = line_start(text, tk[hit].start)
                if text[ls:tk[hit].start].strip():
                    raise GenError('anchor not at line start: %s (template line %d)' % (pat, ln))
                add(ls, tagged)
            else:
                le = line_end(text, tk[hit + len(ptoks) - 1].end)
                if text[tk[hit + len(ptoks) - 1].end:le].strip():
                    raise GenError('anchor not at line end: %s (template line %d)' % (pat, ln))
                add(le, '\n' + tagged.rstrip('\n'))
        else:
            raise GenError('template line %s: bad proof location %r' % (ln, where))
    for segs, txt, ln in members:
        tgt, tk = locate(text, segs)
        if tgt.open_i is None:
            raise GenError('member on item without body')
        add(tk[tgt.open_i].end, '\n' + tag_lines(txt, 'member', '    ').rstrip('\n'))

    out = []
    last = 0
    for off in sorted(ins):
        out.append(text[last:off])
        out.append(''.join(ins[off]))
        last = off
    out.append(text[last:])
    gen = ''.join(out)

    # erasure check: tagged lines removed => token stream of the rewritten original
    kept = '\n'.join(l for l in gen.split('\n') if '//vx:' not in l)
    if [t.text for t in code_tokens(kept)] != expected_tokens:
        raise GenError('erasure check failed for %s :: %s' % (block.file, ' :: '.join(block.path)))
    for r, c in fired.items():
        fired_total[r] = fired_total.get(r, 0) + c
    meta_items.append({
        'file': block.file, 'path': ' :: '.join(block.path), 'file_sha256': sha256(src),
        'item_sha256': sha256(orig), 'lines': [start_line, start_line + orig.count('\n')],
        'rules_fired': fired, 'rewrites': rw_log, 'dropped_members': dropped_names, 'erasure_check': 'ok',
        'slice': slice_desc,
    })
    # line origins: source line for each generated line
    origins = []
    src_tok_lines = []
    nk = 0
    for l in text.split('\n'):
        if '//vx:' in l:
            continue
        for _t in code_tokens(l):
            src_tok_lines.append(start_line + nk)
        nk += 1
    ti = 0
    for l in gen.split('\n'):
        if '//vx:' in l:
            origins.append(('clause', l.rsplit('//vx:', 1)[1].strip()))
        else:
            ntok = len(code_tokens(l))
            if ntok and ti < len(src_tok_lines):
                origins.append(('src', block.file, src_tok_lines[ti]))
            else:
                origins.append(('src', block.file, None))
            ti += ntok
    return gen, origins


def generate(tpl_path, unit):
    tpl = open(tpl_path).read()
    parts = parse_template(tpl, os.path.dirname(os.path.abspath(tpl_path)))
    out_lines, origins, clauses, items, fired = [], [], [], [], {}
    mode = 'verus'
    for p in parts:
        if p[0] == 'mode':
            mode = p[1]
        elif p[0] == 'scan':
            # //@scan NAME <file> /regex/ : syntactic obligation - number of matches in the (comment-free) file as a constant
            mm = re.match(r'^(\w+)\s+(\S+)\s+/(.*)/$', p[2], re.S)
            if not mm:
                raise GenError('template line %s: bad //@scan' % p[1])
            try:
                fsrc = strip_comments(open(os.path.join(REPO, mm.group(2))).read())
            except OSError as e:
                raise GenError('anchor lost: cannot read %s: %s' % (mm.group(2), e))
            n = len(re.findall(mm.group(3), fsrc, flags=re.S))
            out_lines.append('pub const %s: usize = %d; //vx:scan' % (mm.group(1), n))
            origins.append(('tpl', p[1]))
            items.append({'file': mm.group(2), 'path': '(syntactic scan /%s/)' % mm.group(3)[:60], 'file_sha256': sha256(fsrc),
                          'lines': None, 'rules_fired': {}, 'erasure_check': 'n/a (scan: %d matches)' % n, 'scan': {'const': mm.group(1), 'matches': n}})
        elif p[0] == 'text':
            out_lines.append(p[2])
            origins.append(('tpl', p[1]))
        else:
            gen, org = extract_item(p[1], unit, fired, clauses, items, mode)
            gl = gen.split('\n')
            out_lines.extend(gl)
            origins.extend(org)
    text = '\n'.join(out_lines)
    # clause -> generated lines
    by_id = {c.id: c for c in clauses}
    if len(by_id) != len(clauses):
        seen = set()
        for c in clauses:
            if c.id in seen:
                raise GenError('duplicate clause id %s' % c.id)
            seen.add(c.id)
    for ln, o in enumerate(origins, 1):
        if o[0] == 'clause' and o[1] in by_id:
            by_id[o[1]].gen_lines.append(ln)
    # mechanical scan of trusted constructs
    scan = {}
    for pat in ('assume(', 'admit(', 'external_body', 'assume_specification', '#[verifier::', 'external_fn_specification',
                'external_type_specification', 'unsafe'):
        hits = [i for i, l in enumerate(out_lines, 1) if pat in l.split('//')[0]]
        if hits:
            scan[pat] = hits
    return {'text': text, 'origins': origins, 'clauses': clauses, 'items': items, 'rules_fired': fired,
            'scan': scan, 'template': tpl_path, 'template_sha256': sha256(tpl)}


if __name__ == '__main__':
    r = generate(sys.argv[1], sys.argv[2] if len(sys.argv) > 2 else 'U')
    sys.stdout.write(r['text'])
