"""Writes /verif/MANIFEST.json from the registry (vx/units.py) so that the two never disagree."""
import json
import os
import sys

sys.path.insert(0, os.path.dirname(os.path.abspath(__file__)))
import units as U

VERIF = os.path.dirname(os.path.dirname(os.path.abspath(__file__)))


def main():
    checks = []
    for pid in sorted(U.PROPS):
        p = U.PROPS[pid]
        checks.append({
            'property_id': pid,
            'quick_cmd': './check %s --tier quick' % pid,
            'thorough_cmd': './check %s --tier thorough' % pid,
            'evidence_file': 'evidence/%s.json' % pid,
            'replay_cmd_template': './check %s --replay {path}' % pid,
            'engine': 'vx',
            'level_claimed': {'category': p['level'], 'text': p['level_text'], 'design_ref': p.get('design_ref', 'DESIGN.md §3, §4')},
            'level_note': p['level_note'],
            'technique': p['technique'],
        })
    na = [{'property_id': k, 'reason': v} for k, v in sorted(U.NOT_APPLICABLE.items()) if k not in U.PROPS]
    m = {
        'version': 1,
        'setup_cmd': './setup.sh',
        'hooks': {
            'guard': 'cswinter_locustdb_verif',
            'enable': 'none needed: checks read /repo source text and compile extracted functions; no hook is compiled into /repo',
            'baseline_off_cmd': 'cd /repo && cargo test --workspace --no-fail-fast --offline',
            'source_commits': [],
            'add_only': True,
        },
        'engines': [{
            'name': 'vx', 'path': 'vx/',
            'serves_properties': sorted(U.PROPS),
            'kind_free_text': 'contract-based deductive verification: functions extracted mechanically from /repo on every run, '
                              'contracts injected from contracts/*.vx, discharged by Verus (unbounded) and Kani/CBMC '
                              '(complete loop-free harnesses; bounded harnesses labelled bounded); where neither verifier can take the code (regex, Cap\'n Proto, String / HashMap / BTreeMap, dyn dispatch) the extracted functions are compiled natively and enumerated over a stated pool (bounded stand-ins, labelled bounded, never counted as discharged)',
        }],
        'checks': checks,
        'not_applicable': na,
        'notes': 'exit 0 holds / exit 1 VIOLATION / exit 2 undecided (lost anchor, unsupported construct, timeout) - never an alarm. '
                 'Known findings: known_findings.jsonl. Seeded changes: seeded/.',
    }
    with open(os.path.join(VERIF, 'MANIFEST.json'), 'w') as fh:
        json.dump(m, fh, indent=1)
    print('MANIFEST.json: %d checks, %d not_applicable' % (len(checks), len(na)))


if __name__ == '__main__':
    main()
