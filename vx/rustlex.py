"""Minimal Rust lexer + item finder used by the vx extractor.

Only what extraction needs: comments (nested block comments), string / raw string / byte string
literals, char literals vs lifetimes, identifiers, numbers, punctuation (single characters, which is
enough for brace matching and token-sequence comparison).
"""
import re

IDENT_START = re.compile(r'[A-Za-z_]')
IDENT = re.compile(r'[A-Za-z_][A-Za-z0-9_]*')
NUMBER = re.compile(r'[0-9][A-Za-z0-9_]*(\.[0-9][A-Za-z0-9_]*)?')


class LexError(Exception):
    pass


class Tok:
    __slots__ = ('kind', 'text', 'start', 'end')

    def __init__(self, kind, text, start, end):
        self.kind, self.text, self.start, self.end = kind, text, start, end

    def __repr__(self):
        return 'Tok(%s,%r,%d)' % (self.kind, self.text, self.start)


def lex(src, keep_ws=False):
    """Return list of Tok. kinds: ws, comment, ident, lifetime, char, str, num, punct."""
    toks = []
    i, n = 0, len(src)
    while i < n:
        c = src[i]
        if c in ' \t\r\n':
            j = i + 1
            while j < n and src[j] in ' \t\r\n':
                j += 1
            if keep_ws:
                toks.append(Tok('ws', src[i:j], i, j))
            i = j
            continue
        if src.startswith('//', i):
            j = src.find('\n', i)
            if j < 0:
                j = n
            toks.append(Tok('comment', src[i:j], i, j))
            i = j
            continue
        if src.startswith('/*', i):
            depth, j = 1, i + 2
            while j < n and depth:
                if src.startswith('/*', j):
                    depth += 1
                    j += 2
                elif src.startswith('*/', j):
                    depth -= 1
                    j += 2
                else:
                    j += 1
            if depth:
                raise LexError('unterminated block comment at %d' % i)
            toks.append(Tok('comment', src[i:j], i, j))
            i = j
            continue
        # raw strings / byte strings
        m = re.match(r'(br|r|b|c|cr)?(#*)"', src[i:i + 12])
        if m and (m.group(1) or not m.group(2)):
            prefix, hashes = m.group(1) or '', m.group(2)
            if 'r' in prefix or (hashes and prefix):
                if 'r' not in prefix:
                    m = None
                else:
                    close = '"' + hashes
                    j = src.find(close, i + len(m.group(0)))
                    if j < 0:
                        raise LexError('unterminated raw string at %d' % i)
                    j += len(close)
                    toks.append(Tok('str', src[i:j], i, j))
                    i = j
                    continue
            if m and not hashes:
                j = i + len(m.group(0))
                while j < n and src[j] != '"':
                    j += 2 if src[j] == '\\' else 1
                if j >= n:
                    raise LexError('unterminated string at %d' % i)
                j += 1
                toks.append(Tok('str', src[i:j], i, j))
                i = j
                continue
        if c == "'" or (c == 'b' and src.startswith("b'", i)):
            k = i + (2 if c == 'b' else 1)
            # char literal: '\x' ... or 'x' followed by '
            if k < n and src[k] == '\\':
                j = src.find("'", k + 2)
                toks.append(Tok('char', src[i:j + 1], i, j + 1))
                i = j + 1
                continue
            if k + 1 < n and src[k + 1] == "'" and src[k] != "'":
                toks.append(Tok('char', src[i:k + 2], i, k + 2))
                i = k + 2
                continue
            # multi-byte char literal like 'é'
            mm = re.match(r"'[^'\\\n]'", src[i:i + 8])
            if c == "'" and mm:
                toks.append(Tok('char', mm.group(0), i, i + len(mm.group(0))))
                i += len(mm.group(0))
                continue
            if c == "'":
                mm = IDENT.match(src, i + 1)
                if mm:
                    toks.append(Tok('lifetime', src[i:mm.end()], i, mm.end()))
                    i = mm.end()
                    continue
        mm = IDENT.match(src, i)
        if mm:
            toks.append(Tok('ident', mm.group(0), i, mm.end()))
            i = mm.end()
            continue
        mm = NUMBER.match(src, i)
        if mm:
            # do not swallow `..` range after integer: "0..n"
            text = mm.group(0)
            if '.' in text and src.startswith('..', mm.start() + text.index('.')):
                text = text[:text.index('.')]
            toks.append(Tok('num', text, i, i + len(text)))
            i += len(text)
            continue
        toks.append(Tok('punct', c, i, i + 1))
        i += 1
    return toks


def code_tokens(src):
    return [t for t in lex(src) if t.kind != 'comment']


def tok_texts(src):
    return [t.text for t in code_tokens(src)]


def strip_comments(src):
    """Remove comments, keep newlines so that line numbers are stable."""
    out, last = [], 0
    for t in lex(src):
        if t.kind == 'comment':
            out.append(src[last:t.start])
            out.append('\n' * t.text.count('\n'))
            last = t.end
    out.append(src[last:])
    return ''.join(out)


OPEN = {'(': ')', '[': ']', '{': '}'}
CLOSE = {')', ']', '}'}


def match_close(toks, i):
    """toks[i] is an opener; return index of its closer."""
    depth = 0
    for j in range(i, len(toks)):
        t = toks[j]
        if t.kind == 'punct':
            if t.text in OPEN:
                depth += 1
            elif t.text in CLOSE:
                depth -= 1
                if depth == 0:
                    return j
    raise LexError('unbalanced at token %d' % i)


class Item:
    """An item located in a token list: header tokens [h0,h1), body braces at open/close (or None)."""

    def __init__(self, toks, first, h0, open_i, close_i, end_i):
        self.toks, self.first, self.h0, self.open_i, self.close_i, self.end_i = toks, first, h0, open_i, close_i, end_i

    @property
    def start(self):
        return self.toks[self.first].start

    @property
    def end(self):
        return self.toks[self.end_i].end

    @property
    def header_start(self):
        return self.toks[self.h0].start

    def header_texts(self):
        stop = self.open_i if self.open_i is not None else self.end_i
        return [t.text for t in self.toks[self.h0:stop]]


VIS_SKIP = {'pub', 'unsafe', 'async', 'default', 'extern'}


def iter_items(toks, lo, hi):
    """Yield Item for each item at nesting depth 0 within toks[lo:hi]."""
    i = lo
    while i < hi:
        first = i
        # attributes
        while i < hi and toks[i].text == '#':
            j = i + 1
            if j < hi and toks[j].text == '!':
                j += 1
            if j < hi and toks[j].text == '[':
                i = match_close(toks, j) + 1
            else:
                break
        # visibility etc
        while i < hi and toks[i].kind == 'ident' and toks[i].text in VIS_SKIP:
            i += 1
            if i < hi and toks[i].text == '(' and toks[i - 1].text == 'pub':
                i = match_close(toks, i) + 1
            if i < hi and toks[i].kind == 'str' and toks[i - 1].text == 'extern':
                i += 1
        if i >= hi:
            break
        h0 = i
        # `const fn` vs `const X`
        # find end of item: first `{` or `;` at paren depth 0
        j = i
        open_i = close_i = None
        while j < hi:
            t = toks[j]
            if t.kind == 'punct':
                if t.text in '([':
                    j = match_close(toks, j) + 1
                    continue
                if t.text == '{':
                    open_i = j
                    close_i = match_close(toks, j)
                    break
                if t.text == ';':
                    break
                if t.text == '=' and toks[h0].text in ('const', 'static', 'type', 'let'):
                    # skip initializer up to ;
                    k = j
                    while k < hi and toks[k].text != ';':
                        if toks[k].text in OPEN:
                            k = match_close(toks, k)
                        k += 1
                    j = k
                    break
            j += 1
        if j >= hi:
            j = hi - 1
        if open_i is not None:
            end_i = close_i
            # struct/enum-like with trailing `;`? (tuple structs end in ;, handled above)
        else:
            end_i = j
        yield Item(toks, first, h0, open_i, close_i, end_i)
        i = end_i + 1


def seg_tokens(seg):
    return [t.text for t in code_tokens(seg)]


def header_matches(item, seg):
    h = item.header_texts()
    # allow `const fn`/`const unsafe fn`
    s = seg_tokens(seg)
    if h[:1] == ['const'] and s[:1] == ['fn']:
        h = h[1:]
    if h[:len(s)] != s:
        return False
    rest = h[len(s):]
    if not rest:
        return True
    return rest[0] in ('(', '<', 'where', ':', '{', ';', '=') or (s[0] in ('impl',) and rest[0] in ('where',))


def find_in(toks, lo, hi, seg, nth=1, deep=False):
    count = 0
    for it in iter_items(toks, lo, hi):
        if header_matches(it, seg):
            count += 1
            if count == nth:
                return it
    if deep:
        # search nested blocks (fn inside fn body, items inside mod)
        for it in iter_items(toks, lo, hi):
            if it.open_i is not None:
                # scan nested braces for items: try every `{` block in body
                r = find_deep(toks, it.open_i + 1, it.close_i, seg)
                if r:
                    return r
    return None


def find_deep(toks, lo, hi, seg):
    s = seg_tokens(seg)
    for k in range(lo, hi):
        if toks[k].text == s[0] and [t.text for t in toks[k:k + len(s)]] == s:
            # build an item starting here
            for it in iter_items(toks, k, hi):
                if header_matches(it, seg):
                    return it
                break
    return None


def find_item(src, path):
    """path: list of segments e.g. ['impl BitVecMut for Vec<u8>', 'fn set'].
    A segment may end in '#k' to pick the k-th match. Returns (Item, toks)."""
    toks = code_tokens(src)
    lo, hi = 0, len(toks)
    it = None
    for seg in path:
        nth = 1
        m = re.match(r'^(.*)#(\d+)$', seg.strip())
        if m:
            seg, nth = m.group(1).strip(), int(m.group(2))
        it = find_in(toks, lo, hi, seg, nth, deep=(it is not None and it.toks[it.h0].text == 'fn') or False)
        if it is None and lo != 0:
            it = find_deep(toks, lo, hi, seg)
        if it is None:
            return None, toks
        if it.open_i is not None:
            lo, hi = it.open_i + 1, it.close_i
    return it, toks
