"""Replay files for violations.  For Kani failures the verifier's counterexample (concrete playback) is
attached and re-run natively against the extracted code; for Verus failures (no counterexample) the replay
names the failed obligation and carries the verifier's output, and the VIOLATION line ends with
`no-failing-input-found` unless a paired Kani harness produced one."""
import json
import os
import re
import subprocess
import sys

sys.path.insert(0, os.path.dirname(os.path.abspath(__file__)))
VERIF = os.path.dirname(os.path.dirname(os.path.abspath(__file__)))
BUILD = os.path.join(VERIF, 'build')


def kani_playback(unit, harness, cfg_cmd_env):
    """Run the failing harness again with --concrete-playback=print, return (test_text, values) or (None, None)."""
    crate = os.path.join(BUILD, 'kani', unit)
    env = dict(os.environ)
    env['CARGO_NET_OFFLINE'] = 'true'
    env['CARGO_TARGET_DIR'] = os.path.join(BUILD, 'kani-target', unit)
    cmd = ['prlimit', '--as=%d' % (12 * 1024 ** 3), '--', 'cargo', 'kani', '-Z', 'function-contracts', '-Z', 'stubbing',
           '-Z', 'concrete-playback', '--concrete-playback=print', '--harness', harness, '--exact'] + cfg_cmd_env
    try:
        p = subprocess.run(cmd, cwd=crate, env=env, stdout=subprocess.PIPE, stderr=subprocess.STDOUT, text=True, timeout=600)
    except subprocess.TimeoutExpired:
        return None, None
    out = p.stdout
    blocks = re.findall(r'```\s*\n(.*?)```', out, re.S)
    blocks = [b for b in blocks if 'concrete_playback_run' in b]
    if not blocks:
        return None, None
    pref = [b for b in blocks if 'Check for `cover`' not in b]
    test = (pref or blocks)[0]
    vals = re.findall(r'//\s*(-?[0-9a-zA-Z_.\']+)\s*\n\s*vec!\[([0-9, ]*)\]', test)
    return test, [{'value': v, 'bytes': b} for v, b in vals]


def write_replay(pid, unit, failure, unit_result, seed):
    d = os.path.join(VERIF, 'replays', pid)
    os.makedirs(d, exist_ok=True)
    name = re.sub(r'[^A-Za-z0-9_.\-]+', '_', failure['id'])
    path = os.path.join(d, name + '.json')
    rep = {'property': pid, 'unit': unit, 'obligation': failure['id'], 'kind': failure['kind'],
           'message': failure.get('message'), 'backend': unit_result['backend'], 'checker_cmd': unit_result.get('cmd'),
           'verifier_output': failure.get('rendered') or failure.get('message'),
           'source': failure.get('src') or failure.get('location'),
           'generated_file': unit_result.get('generated_file'),
           'clause_text': next((c['text'] for c in unit_result.get('clauses', []) if c['id'] == failure['id']), None),
           'functions_under_contract': [{'file': i['file'], 'path': i['path']} for i in unit_result.get('items', [])],
           'witness': None, 'witness_replayed': None}
    found = False
    if failure.get('witness_text'):
        rep['witness'] = {'failing_input': failure['witness_text'], 'how': 'natively compiled extracted real code (witness search of unit %s); rerun: %s' % (unit, unit_result.get('cmd'))}
        rep['witness_replayed'] = {'observed': 'the native run itself is the replay: the property-level check failed on this input', 'cmd': unit_result.get('cmd')}
        found = True
    if unit_result['backend'] == 'kani' and failure.get('harness'):
        import units as U
        cfg = U.UNITS[unit]
        h = next((x for x in cfg['harnesses'] if x['name'] == failure['harness']), {})
        extra = ['--solver', h.get('solver', 'cadical')]
        if h.get('unwind'):
            extra += ['--default-unwind', str(h['unwind'])]
        test, vals = kani_playback(unit, failure['harness'], extra)
        if test:
            rep['witness'] = {'concrete_playback_test': test, 'values': vals}
            found = True
            rep['witness_replayed'] = native_replay(unit, failure['harness'], test)
    with open(path, 'w') as fh:
        json.dump(rep, fh, indent=1)
    return path, found


def native_replay(unit, harness, test_text):
    """Compile the harness crate natively (kani's toolchain, `cargo kani playback`) and run the generated test against
    the extracted real code."""
    crate = os.path.join(BUILD, 'kani', unit)
    lib = os.path.join(crate, 'src', 'lib.rs')
    marker = '// --- vx concrete playback (generated, removed after replay) ---'
    try:
        orig = open(lib).read()
        end_marker = '} // mod proofs'
        if end_marker not in orig:
            return {'error': 'harness crate has no `} // mod proofs` marker'}
        open(lib, 'w').write(orig.replace(end_marker, marker + '\n' + test_text + '\n' + end_marker, 1))
        env = dict(os.environ)
        env['CARGO_NET_OFFLINE'] = 'true'
        env['CARGO_TARGET_DIR'] = os.path.join(BUILD, 'kani-target', unit + '-playback')
        m = re.search(r'fn (kani_concrete_playback_\w+)', test_text)
        tname = m.group(1) if m else 'kani_concrete_playback'
        p = subprocess.run(['cargo', 'kani', 'playback', '-Z', 'concrete-playback', '--', tname], cwd=crate, env=env,
                           stdout=subprocess.PIPE, stderr=subprocess.STDOUT, text=True, timeout=900)
        tail = p.stdout[-2500:]
        return {'cmd': 'cargo kani playback -Z concrete-playback -- ' + tname, 'rc': p.returncode,
                'observed': 'test failed natively (panic / assertion) => violation reproduced on the extracted real code'
                if p.returncode != 0 and ('panicked' in p.stdout or 'FAILED' in p.stdout) else 'not reproduced / could not run',
                'output_tail': tail}
    except Exception as e:  # replay is best effort
        return {'error': repr(e)}
    finally:
        try:
            open(lib, 'w').write(orig)
        except Exception:
            pass


def replay(path):
    rep = json.load(open(path))
    print('obligation : %s (%s)' % (rep['obligation'], rep['kind']))
    print('unit       : %s [%s]' % (rep['unit'], rep['backend']))
    print('clause     : %s' % rep.get('clause_text'))
    print('verifier   :\n%s' % (rep.get('verifier_output') or ''))
    if rep.get('witness'):
        print('witness    : %s' % json.dumps(rep['witness'].get('values'), indent=1))
        if rep.get('witness_replayed'):
            print('replayed   : %s' % rep['witness_replayed'].get('observed'))
            print(rep['witness_replayed'].get('output_tail', ''))
    else:
        print('witness    : none (no-failing-input-found); re-run `./check %s` to re-establish the failed obligation' % rep['property'])
    return 0
