"""vx runners: Verus units and Kani units -> unit result dicts."""
import json
import os
import re
import shutil
import subprocess
import sys
import time

sys.path.insert(0, os.path.dirname(os.path.abspath(__file__)))
import gen as G
from rustlex import code_tokens, iter_items

VERIF = os.path.dirname(os.path.dirname(os.path.abspath(__file__)))
BUILD = os.path.join(VERIF, 'build')
REPO = G.REPO

SEMANTIC = [
    (re.compile(r'^postcondition not satisfied'), 'postcondition'),
    (re.compile(r'^precondition not satisfied'), 'precondition-at-call'),
    (re.compile(r'^precondition not met: index in bounds'), 'index-out-of-bounds'),
    (re.compile(r'^precondition not met'), 'precondition-at-call'),
    (re.compile(r'^unable to prove post-?condition of closure'), 'closure-postcondition'),
    (re.compile(r'^unable to prove pre-?condition of closure'), 'precondition-at-call'),
    (re.compile(r'^invariant not satisfied at end of loop body'), 'invariant-preserved'),
    (re.compile(r'^invariant not satisfied before loop'), 'invariant-established'),
    (re.compile(r'^loop invariant not satisfied'), 'invariant'),
    (re.compile(r'^assertion failed'), 'assertion'),
    (re.compile(r'^possible arithmetic underflow/overflow'), 'overflow'),
    (re.compile(r'^possible bit shift underflow/overflow'), 'shift-overflow'),
    (re.compile(r'^possible division by zero'), 'division-by-zero'),
    (re.compile(r'^decreases not satisfied'), 'termination'),
    (re.compile(r'^could not prove termination'), 'termination'),
    (re.compile(r'^recursive call may not terminate'), 'termination'),
    (re.compile(r'^unable to prove assertion safety'), 'assertion'),
    (re.compile(r'^possible (cast|conversion) overflow'), 'overflow'),
    (re.compile(r'^unreachable'), 'panic-reachable'),
    (re.compile(r'^possible negative shift'), 'shift-overflow'),
    (re.compile(r'^loop must have a decreases clause'), None),  # template problem -> undecided
]
UNDECIDED = [re.compile(r'[Rr]esource limit'), re.compile(r'rlimit'), re.compile(r'timed? ?out'),
             re.compile(r'while loop: Resource'), re.compile(r'solver (returned )?unknown')]


def limited(cmd, mem_gb, timeout_s, cwd=None, env=None):
    """Run under prlimit --as and a wall clock timeout, in its own process group (killed as a group on timeout so
    that no solver process is orphaned). Returns (rc, stdout, stderr, wall, timed_out)."""
    import signal
    full = ['prlimit', '--as=%d' % (mem_gb * 1024 ** 3), '--'] + cmd
    t0 = time.time()
    p = subprocess.Popen(full, cwd=cwd, env=env, stdout=subprocess.PIPE, stderr=subprocess.PIPE, text=True,
                         errors='replace', start_new_session=True)
    try:
        so, se = p.communicate(timeout=timeout_s)
        return p.returncode, so, se, time.time() - t0, False
    except subprocess.TimeoutExpired:
        try:
            os.killpg(p.pid, signal.SIGKILL)
        except OSError:
            pass
        try:
            so, se = p.communicate(timeout=20)
        except Exception:
            so, se = '', ''
        return -9, so or '', se or '', time.time() - t0, True


def exec_fns(text):
    """names of fns with bodies in generated text that come from extracted items (by //vx-free lines)."""
    names = []
    for m in re.finditer(r'\bfn\s+([A-Za-z0-9_]+)', text):
        names.append(m.group(1))
    return names


def enclosing_fn(lines, ln):
    for k in range(min(ln, len(lines)) - 1, -1, -1):
        m = re.search(r'\bfn\s+([A-Za-z0-9_]+)', lines[k].split('//vx:')[0])
        if m and 'spec fn' not in lines[k] and 'proof fn' not in lines[k]:
            return m.group(1)
    return '?'


CANARY = '''
pub fn vx_canary(x: u8) -> (r: u8)
    ensures r == x + 1,
{
    x
}
'''


def add_canary(text):
    marker = '} // verus!'
    if marker not in text:
        raise G.GenError('template has no `} // verus!` marker')
    return text.replace(marker, CANARY + marker, 1)


def vacuity_variant(g, wave='body'):
    """assert(false) at the start of every extracted fn body and loop body; all must FAIL."""
    lines = g['text'].split('\n')
    origins = g['origins']
    out = []
    points = []
    # positions: generated lines of extracted items containing `{` that opens fn body / loop body
    # simpler: re-tokenise each extracted region
    text = g['text']
    toks = code_tokens(text)
    src_lines = {i + 1 for i, o in enumerate(origins) if o[0] in ('src', 'clause')}
    inserts = []

    def walk(lo, hi):
        for it in iter_items(toks, lo, hi):
            head = [t.text for t in toks[it.h0:it.open_i if it.open_i is not None else it.end_i]]
            if it.open_i is None:
                continue
            ln = text.count('\n', 0, toks[it.h0].start) + 1
            if 'fn' in head[:4] and ln in src_lines and not ({'spec', 'proof'} & set(head[:4])):
                name = head[head.index('fn') + 1] + '@%d' % ln
                if wave == 'body':
                    inserts.append((toks[it.open_i].end, 'vac.%s.body' % name))
                else:
                    # one wave per loop nesting depth: a failed assert(false) is assumed for the rest of its body,
                    # which (without loop isolation) would make every loop nested inside it look unreachable
                    want = 0 if wave == 'loops' else int(wave.rsplit('_d', 1)[1])
                    loops = list(G.find_loops(toks, it.open_i + 1, it.close_i))
                    for n, (kw, op, cl) in enumerate(loops, 1):
                        depth = sum(1 for (_, op2, cl2) in loops if op2 < op and cl < cl2)
                        if depth == want:
                            inserts.append((toks[op].end, 'vac.%s.loop%d' % (name, n)))
            elif head[:1] in (['impl'], ['trait'], ['mod']) or 'impl' in head[:2] or 'trait' in head[:2]:
                walk(it.open_i + 1, it.close_i)
    # only walk inside verus! { ... }
    m = re.search(r'verus!\s*\{', text)
    if not m:
        return None, []
    start_tok = next(i for i, t in enumerate(toks) if t.start >= m.end() - 1 and t.text == '{')
    from rustlex import match_close
    walk(start_tok + 1, match_close(toks, start_tok))
    res, last = [], 0
    for off, tag in sorted(inserts):
        res.append(text[last:off])
        res.append(' assert(false); /*%s*/ ' % tag)
        last = off
        points.append(tag)
    res.append(text[last:])
    return ''.join(res), points


def parse_diags(stderr):
    out = []
    for l in stderr.split('\n'):
        l = l.strip()
        if l.startswith('{') and '"$message_type"' in l:
            try:
                d = json.loads(l)
            except ValueError:
                continue
            if d.get('$message_type') == 'diagnostic':
                out.append(d)
    return out


def run_verus_unit(uid, cfg, tier='quick', quiet=True):
    t0 = time.time()
    res = {'unit': uid, 'backend': 'verus', 'title': cfg.get('title', ''), 'status': 'undecided', 'reason': '',
           'obligations': 0, 'discharged': 0, 'failed': [], 'clauses': [], 'items': [], 'functions': [],
           'cmd': '', 'time_s': 0.0, 'smt_time_s': 0.0, 'scan': {}, 'rules_fired': {}, 'vacuity': {},
           'assumptions': cfg.get('assumptions', []), 'not_covered': cfg.get('not_covered', [])}
    try:
        g = G.generate(os.path.join(VERIF, cfg['tpl']), uid)
    except (G.GenError, G.LexError, OSError) as e:
        res['reason'] = 'extraction: %s' % e
        res['time_s'] = time.time() - t0
        return res
    os.makedirs(BUILD, exist_ok=True)
    path = os.path.join(BUILD, uid + '.rs')
    try:
        text = add_canary(g['text'])
    except G.GenError as e:
        res['reason'] = str(e)
        return res
    open(path, 'w').write(text)
    lines = text.split('\n')
    origins = g['origins']
    canary_line = next(i for i, l in enumerate(lines, 1) if 'pub fn vx_canary' in l)
    rlimit = cfg.get('rlimit', 30)
    if tier == 'thorough' and os.environ.get('VX_HALF_RLIMIT'):
        rlimit = rlimit / 2
    cmd = ['verus', path, '--output-json', '--time', '--multiple-errors', '20', '--error-format=json',
           '--triggers-mode', 'silent', '--rlimit', str(rlimit), '--num-threads', str(cfg.get('threads', 4))]
    res['cmd'] = ' '.join(cmd)
    rc, so, se, wall, to = limited(cmd, cfg.get('mem_gb', 8), cfg.get('timeout_s', 300 if tier == 'quick' else 900), cwd=BUILD)
    res['items'] = g['items']
    res['rules_fired'] = g['rules_fired']
    res['scan'] = g['scan']
    res['clauses'] = [{'id': c.id, 'kind': c.kind, 'text': c.text, 'fn': c.fn} for c in g['clauses']]
    res['generated_file'] = path
    if to:
        res['reason'] = 'verus timeout after %.0fs' % wall
        res['time_s'] = time.time() - t0
        return res
    try:
        js = json.loads(so[so.index('{'):]) if '{' in so else {}
    except ValueError:
        js = {}
    vr = js.get('verification-results', {})
    diags = parse_diags(se)
    errors = [d for d in diags if d.get('level') == 'error' and not d['message'].startswith('aborting due to')]
    res['verus_summary'] = {'verified': vr.get('verified'), 'errors': vr.get('errors'), 'rc': rc}
    try:
        smt = js['times-ms']['smt']
        res['smt_time_s'] = (smt.get('smt-run', 0) + smt.get('smt-init', 0)) / 1000.0
        fb = []
        for mt in smt.get('smt-run-module-times', []):
            for f in mt.get('function-breakdown', []):
                fb.append({'function': f['function'], 'mode': f.get('mode:'), 'time_ms': f['time'], 'rlimit': f.get('rlimit'),
                           'success': f['success']})
        res['functions'] = fb
    except (KeyError, TypeError):
        pass
    if not vr or vr.get('encountered-vir-error') or 'verified' not in vr:
        msg = '; '.join(d['message'] for d in errors[:3]) or se[-400:]
        res['reason'] = 'verus did not reach verification (syntax/type/mode error in generated file): %s' % msg
        res['raw'] = se[-4000:]
        res['time_s'] = time.time() - t0
        return res
    failed, undecided, canary_hit = [], [], False
    for d in errors:
        msg = d['message']
        prim = [s for s in d['spans'] if s['is_primary']] or d['spans']
        all_lines = [s['line_start'] for s in d['spans']]
        if any(canary_line <= l <= canary_line + 5 for l in all_lines):
            canary_hit = True
            continue
        kind = 'unknown'
        sem = False
        for rx, k in SEMANTIC:
            if rx.search(msg):
                kind, sem = k, k is not None
                break
        if any(rx.search(msg) for rx in UNDECIDED):
            undecided.append(msg)
            continue
        if not sem:
            undecided.append('unclassified verifier message: %s (line %s)' % (msg, all_lines))
            continue
        pl = prim[0]['line_start'] if prim else None
        org = origins[pl - 1] if pl and pl - 1 < len(origins) else ('tpl', None)
        entry = {'kind': kind, 'message': msg, 'gen_line': pl, 'rendered': d.get('rendered', '')[:1500]}
        touching = [origins[l - 1] for l in all_lines if l - 1 < len(origins)]
        if org[0] == 'clause':
            entry['id'] = org[1]
        elif org[0] == 'src':
            fn = enclosing_fn(lines, pl)
            entry['id'] = '%s.%s.safety:%s' % (uid, fn, kind)
            entry['src'] = {'file': org[1], 'line': org[2]}
        else:
            src_t = [o for o in touching if o[0] in ('src', 'clause')]
            if not src_t:
                undecided.append('verifier error inside hand-written template text at template line %s: %s' % (org[1], msg))
                continue
            other = next(l for l in all_lines if origins[l - 1][0] in ('src', 'clause'))
            fn = enclosing_fn(lines, other)
            entry['id'] = '%s.%s.tpl%s:%s' % (uid, fn, org[1], kind)
        if entry['id'].endswith('.kw') or entry['id'] == 'member':
            undecided.append('error on injected keyword/member line: %s' % msg)
            continue
        failed.append(entry)
    if not canary_hit:
        res['reason'] = 'canary was not rejected: verifier is not checking (vacuity guard)'
        res['time_s'] = time.time() - t0
        return res
    obl = [c for c in g['clauses'] if c.kind != 'requires']
    fnames = []
    for f in res['functions']:
        if f['mode'] == 'exec' and not f['function'].endswith('vx_canary'):
            fnames.append(f['function'])
    res['obligations'] = len(obl) + len(fnames)
    failed_ids = {f['id'] for f in failed}
    failed_fns = {f['function'] for f in res['functions'] if not f['success'] and not f['function'].endswith('vx_canary')}
    res['failed'] = failed
    n_failed_obl = len({i for i in failed_ids})
    res['discharged'] = max(0, res['obligations'] - n_failed_obl)
    res['obligation_ids'] = [c.id for c in obl] + ['%s.%s.safety' % (uid, f.split('::')[-1]) for f in fnames]
    if undecided:
        res['status'] = 'undecided'
        res['reason'] = '; '.join(undecided[:5])
    elif failed:
        res['status'] = 'fail'
    elif (vr.get('errors') or 0) != 1:
        res['status'] = 'undecided'
        res['reason'] = 'verus reported %s errors but only the canary was mapped' % vr.get('errors')
    elif res['obligations'] == 0:
        res['status'] = 'undecided'
        res['reason'] = 'no obligations generated'
    else:
        res['status'] = 'pass'
    # vacuity runs (only when main run is pass): wave 1 = fn bodies, wave 2 = loop bodies (separate files, because a failed
    # assert(false) is assumed afterwards and would mask later points of a function whose loops are not isolated)
    if res['status'] == 'pass' and not cfg.get('skip_vacuity'):
        import concurrent.futures as _cf

        def one(wave):
            vt, points = vacuity_variant(g, wave)
            if not vt or not points:
                return wave, [], [], False
            vpath = os.path.join(BUILD, '%s_vac_%s.rs' % (uid, wave))
            open(vpath, 'w').write(vt)
            vcmd = ['verus', vpath, '--output-json', '--multiple-errors', '50', '--error-format=json', '--triggers-mode', 'silent',
                    '--rlimit', str(rlimit), '--num-threads', str(cfg.get('threads', 4))]
            rc2, so2, se2, wall2, to2 = limited(vcmd, 8, cfg.get('timeout_s', 300), cwd=BUILD)
            vlines = vt.split('\n')
            hit = set()
            for d in parse_diags(se2):
                if d.get('level') == 'error' and d['message'].startswith('assertion failed'):
                    for sp in d['spans']:
                        m = re.search(r'/\*(vac[^*]+)\*/', vlines[sp['line_start'] - 1][max(0, sp['column_start'] - 1):])
                        if m:
                            hit.add(m.group(1))
            if '"verified"' not in so2:
                to2 = True
            return wave, points, [p for p in points if p not in hit], to2
        with _cf.ThreadPoolExecutor(max_workers=4) as ex:
            outs = list(ex.map(one, ['body', 'loops', 'loops_d1', 'loops_d2']))
        points = sum(len(o[1]) for o in outs)
        missing = [p for o in outs for p in o[2]]
        timed = any(o[3] for o in outs)
        res['vacuity'] = {'points': points, 'reachable': points - len(missing), 'unreachable': missing, 'timed_out': timed}
        if timed:
            res['vacuity']['note'] = 'vacuity run timed out or did not verify; not counted'
        elif missing:
            res['status'] = 'undecided'
            res['reason'] = 'vacuous contract: assert(false) verifies at %s' % missing
    if tier == 'thorough' and res['status'] == 'pass':
        hcmd = [c for c in cmd]
        hcmd[hcmd.index('--rlimit') + 1] = str(rlimit / 2.0)
        rc3, so3, se3, wall3, to3 = limited(hcmd, cfg.get('mem_gb', 8), cfg.get('timeout_s', 900), cwd=BUILD)
        try:
            js3 = json.loads(so3[so3.index('{'):]) if '{' in so3 else {}
        except ValueError:
            js3 = {}
        errs3 = (js3.get('verification-results', {}) or {}).get('errors')
        res['brittleness'] = {'rlimit': rlimit / 2.0, 'errors_beyond_canary': None if errs3 is None else max(0, errs3 - 1),
                              'stable': errs3 == 1, 'wall_s': round(wall3, 1)}
    res['time_s'] = time.time() - t0
    return res


# ------------------------------------------------------------------------------------------------
# Kani

KANI_CHECK = re.compile(r'^Check (\d+): (\S+)\s*$')


def parse_kani(out):
    """-> list of checks {n, name, status, description, location}, summary"""
    checks, cur = [], None
    for l in out.split('\n'):
        m = KANI_CHECK.match(l.strip())
        if m:
            cur = {'n': int(m.group(1)), 'name': m.group(2)}
            checks.append(cur)
            continue
        if cur is not None:
            s = l.strip()
            if s.startswith('- Status:'):
                cur['status'] = s.split(':', 1)[1].strip()
            elif s.startswith('- Description:'):
                cur['description'] = s.split(':', 1)[1].strip().strip('"')
            elif s.startswith('- Location:'):
                cur['location'] = s.split(':', 1)[1].strip()
    return checks


def prepare_kani_crate(uid, cfg):
    """Copy the crate template kani/<dir> to build/kani/<uid>, generate extracted sources."""
    src = os.path.join(VERIF, cfg['crate'])
    dst = os.path.join(BUILD, 'kani', uid)
    os.makedirs(dst, exist_ok=True)
    meta = {'items': [], 'rules_fired': {}, 'scan': {}}
    for root, dirs, files in os.walk(src):
        rel = os.path.relpath(root, src)
        os.makedirs(os.path.join(dst, rel), exist_ok=True)
        for f in files:
            sp = os.path.join(root, f)
            if f.endswith('.vx'):
                g = G.generate(sp, uid)
                open(os.path.join(dst, rel, f[:-3] + '.rs'), 'w').write(g['text'])
                meta['items'].extend(g['items'])
                for k, v in g['rules_fired'].items():
                    meta['rules_fired'][k] = meta['rules_fired'].get(k, 0) + v
            else:
                data = open(sp).read()
                data = data.replace('@REPO@', REPO)
                dp = os.path.join(dst, rel, f)
                if not os.path.exists(dp) or open(dp).read() != data:
                    open(dp, 'w').write(data)
    shutil.copy(os.path.join(VERIF, 'kani', 'common', 'shim.rs'), os.path.join(dst, 'common_shim.rs'))
    lock = os.path.join(REPO, 'Cargo.lock')
    if cfg.get('needs_lock') and os.path.exists(lock):
        shutil.copy(lock, os.path.join(dst, 'Cargo.lock'))
    # record sha of files included by #[path]
    for inc in cfg.get('path_includes', []):
        p = os.path.join(REPO, inc)
        try:
            s = open(p).read()
            meta['items'].append({'file': inc, 'path': '(whole file via #[path])', 'file_sha256': G.sha256(s),
                                  'lines': [1, s.count('\n') + 1], 'rules_fired': {}, 'erasure_check': 'n/a (file compiled as is)'})
        except OSError as e:
            raise G.GenError('anchor lost: %s: %s' % (inc, e))
    return dst, meta


def run_kani_unit(uid, cfg, tier='quick'):
    t0 = time.time()
    res = {'unit': uid, 'backend': 'kani', 'title': cfg.get('title', ''), 'status': 'undecided', 'reason': '',
           'obligations': 0, 'discharged': 0, 'failed': [], 'clauses': [], 'items': [], 'functions': [],
           'cmd': '', 'time_s': 0.0, 'smt_time_s': 0.0, 'scan': {}, 'rules_fired': {}, 'bounded': [],
           'assumptions': cfg.get('assumptions', []), 'not_covered': cfg.get('not_covered', []), 'harnesses': []}
    try:
        crate, meta = prepare_kani_crate(uid, cfg)
    except (G.GenError, G.LexError, OSError) as e:
        res['reason'] = 'extraction: %s' % e
        res['time_s'] = time.time() - t0
        return res
    res['items'] = meta['items']
    res['rules_fired'] = meta['rules_fired']
    env = dict(os.environ)
    env['CARGO_NET_OFFLINE'] = 'true'
    env['CARGO_TARGET_DIR'] = os.path.join(BUILD, 'kani-target', uid)
    harnesses = [h for h in cfg['harnesses'] if tier == 'thorough' or not h.get('thorough_only')]
    groups = {}
    for h in harnesses:
        groups.setdefault((h.get('solver', 'cadical'), h.get('unwind'), tuple(h.get('extra', []))), []).append(h)
    all_ok = True
    undec = []
    cmds = []
    for (solver, unwind, extra), hs in groups.items():
        cmd = ['cargo', 'kani', '-Z', 'function-contracts', '-Z', 'stubbing', '--solver', solver,
               '-j', str(cfg.get('jobs', 6)), '--output-format', 'terse']
        if unwind:
            cmd += ['--default-unwind', str(unwind)]
        cmd += list(extra)
        for h in hs:
            cmd += ['--harness', h['name']]
            if h.get('exact', True):
                pass
        cmd += ['--exact'] if cfg.get('exact', True) else []
        cmds.append(' '.join(cmd))
        rc, so, se, wall, to = limited(cmd, cfg.get('mem_gb', 12), cfg.get('timeout_s', 600 if tier == 'quick' else 1800),
                                       cwd=crate, env=env)
        out = so + '\n' + se
        try:
            open(os.path.join(crate, 'last_output_%d.txt' % len(cmds)), 'w').write(out)
        except OSError:
            pass
        if to:
            undec.append('kani timeout after %.0fs (%s)' % (wall, ','.join(h['name'] for h in hs)))
            continue
        if 'error: could not compile' in out or 'error[E' in out:
            undec.append('harness crate does not compile: %s' % ' | '.join(
                l for l in out.split('\n') if l.startswith('error'))[:600])
            res['raw'] = out[-4000:]
            continue
        # split per harness (terse output: one block per harness)
        # terse -j output: "Thread N: Checking harness X..." at start, "Thread N: " + result block at the end
        cur_by_thread, blocks, active = {}, [], None
        for line in out.split('\n'):
            m1 = re.match(r'^(?:Thread (\d+): )?Checking harness (\S+?)\.\.\.\s*$', line)
            if m1:
                cur_by_thread[m1.group(1) or '0'] = m1.group(2)
                if m1.group(1) is None:
                    active = [m1.group(2), []]
                    blocks.append(active)
                else:
                    active = None
                continue
            m2 = re.match(r'^Thread (\d+): \s*$', line)
            if m2:
                active = [cur_by_thread.get(m2.group(1), '?'), []]
                blocks.append(active)
                continue
            if line.startswith('Manual Harness Summary') or line.startswith('Thread '):
                active = None
                continue
            if active is not None:
                active[1].append(line)
        seen = set()
        for hname, blines in blocks:
            body = '\n'.join(blines)
            h = next((x for x in hs if hname == x['name'] or hname.endswith('::' + x['name'])), None)
            if h is None:
                continue
            seen.add(h['name'])
            ver = re.search(r'VERIFICATION:- (\w+)', body)
            verdict = ver.group(1) if ver else 'UNKNOWN'
            tm = re.search(r'Verification Time: ([0-9.]+)s', body)
            vt = float(tm.group(1)) if tm else 0.0
            mm = re.search(r'\*\* (\d+) of (\d+) failed', body)
            nfail, nchecks = (int(mm.group(1)), int(mm.group(2))) if mm else (0, 0)
            cm = re.search(r'\*\* (\d+) of (\d+) cover properties satisfied', body)
            csat, ctot = (int(cm.group(1)), int(cm.group(2))) if cm else (0, 0)
            fcs = [{'description': d.strip().strip('"'), 'location': '%s:%s in %s' % (f, l, fn), 'name': fn}
                   for d, f, l, fn in re.findall(r'Failed Checks: (.*)\n\s*File: "([^"]*)", line (\d+), in (\S+)', body)]
            hr = {'harness': h['name'], 'verdict': verdict, 'checks': nchecks, 'time_s': vt, 'solver': solver,
                  'complete': not h.get('bounded'), 'bound': h.get('bounded'), 'clause': h.get('clause', ''),
                  'failed_checks': fcs[:20], 'covers': ctot, 'covers_satisfied': csat}
            res['harnesses'].append(hr)
            res['smt_time_s'] += vt
            oom = 'out of memory' in body.lower() or 'std::bad_alloc' in body
            if oom or verdict == 'UNKNOWN' or not mm or (verdict == 'FAILED' and not fcs and csat == ctot):
                undec.append('%s: no verdict (%s)' % (h['name'], 'out of memory' if oom else verdict))
                continue
            if h.get('expect_fail'):
                if verdict != 'FAILED':
                    undec.append('canary harness %s was not rejected' % h['name'])
                continue
            if csat != ctot and not fcs:
                undec.append('%s: vacuity guard: %d of %d cover properties satisfied' % (h['name'], csat, ctot))
                continue
            if any('unwinding assertion' in c['description'] for c in fcs):
                undec.append('%s: unwinding assertion failed (bound too small): machinery' % h['name'])
                continue
            if h.get('bounded'):
                res['bounded'].append({'harness': h['name'], 'bound': h['bounded'], 'checks': nchecks, 'verdict': verdict})
            else:
                res['obligations'] += nchecks
                res['discharged'] += nchecks - nfail
            for c in fcs:
                desc = c['description']
                m = re.match(r'^\[([A-Za-z0-9_.:\-]+)\]', desc)
                short = h['name'].split('::')[-1]
                if m:
                    cid = '%s.%s.%s' % (uid, short, m.group(1))
                else:
                    cid = '%s.%s.safety:%s' % (uid, short, re.sub(r'[^a-z0-9]+', '-', desc.lower())[:60].strip('-'))
                res['failed'].append({'id': cid, 'kind': 'kani-check', 'message': desc, 'harness': h['name'],
                                      'location': c['location'], 'bounded': bool(h.get('bounded'))})
        for h in hs:
            if h['name'] not in seen:
                undec.append('harness %s produced no result' % h['name'])
                res['raw'] = out[-3000:]
    res['cmd'] = ' ; '.join(cmds)
    if undec:
        res['status'] = 'undecided'
        res['reason'] = '; '.join(undec[:6])
    elif res['failed']:
        res['status'] = 'fail'
    elif res['obligations'] == 0 and not res['bounded']:
        res['status'] = 'undecided'
        res['reason'] = 'no checks generated'
    else:
        res['status'] = 'pass'
    res['clauses'] = [{'id': '%s.%s' % (uid, h['name']), 'kind': 'kani-harness', 'text': h.get('clause', ''), 'fn': h.get('fn', '')}
                      for h in harnesses if not h.get('expect_fail')]
    res['time_s'] = time.time() - t0
    return res


def run_native_unit(uid, cfg, tier='quick'):
    """Witness search: the extracted real code compiled natively and driven over a pool of small inputs.  It can only
    produce a concrete failing input (status 'fail'); exhausting the pool is reported as 'pass' but decides nothing."""
    t0 = time.time()
    res = {'unit': uid, 'backend': 'native-witness-search', 'title': cfg.get('title', ''), 'status': 'undecided', 'reason': '',
           'obligations': 0, 'discharged': 0, 'failed': [], 'clauses': [], 'items': [], 'functions': [], 'cmd': '',
           'time_s': 0.0, 'smt_time_s': 0.0, 'scan': {}, 'rules_fired': {}, 'bounded': [],
           'assumptions': cfg.get('assumptions', []), 'not_covered': cfg.get('not_covered', []), 'harnesses': []}
    try:
        crate, meta = prepare_kani_crate(uid, cfg)
    except (G.GenError, G.LexError, OSError) as e:
        res['reason'] = 'extraction: %s' % e
        return res
    res['items'] = meta['items']
    env = dict(os.environ)
    env['CARGO_NET_OFFLINE'] = 'true'
    env['CARGO_TARGET_DIR'] = os.path.join(BUILD, 'native-target', uid)
    env['VERIF_TIER'] = tier
    seed = os.environ.get('VERIF_SEED', '0') or '0'
    cmd = ['cargo', '+' + cfg.get('toolchain', 'nightly-2025-03-28'), 'run', '--offline', '--quiet', '--bin', cfg['bin'], '--', seed]
    res['cmd'] = ' '.join(cmd)
    rc, so, se, wall, to = limited(cmd, cfg.get('mem_gb', 8), cfg.get('timeout_s', 900), cwd=crate, env=env)
    if to:
        res['reason'] = 'witness search timed out'
    elif re.search(r'(?m)^WITNESS ', so):
        w = re.search(r'(?m)^WITNESS (.*)$', so).group(1)
        clause = re.sub(r'[^a-z0-9\-]+', '-', w.split(':')[0].lower())[:40]
        res['status'] = 'fail'
        res['failed'] = [{'id': '%s.witness.%s' % (uid, clause), 'kind': 'concrete-failing-input', 'message': w,
                          'witness_text': w, 'rendered': 'native run of the extracted real code: ' + w}]
    elif re.search(r'(?m)^NO-WITNESS', so):
        res['status'] = 'pass'
        res['bounded'] = [{'harness': cfg['bin'], 'bound': cfg.get('pool', 'input pool'), 'checks': 0, 'verdict': 'NO-WITNESS'}]
    else:
        res['reason'] = 'witness driver did not run: %s' % (se[-400:] or so[-200:])
    res['time_s'] = time.time() - t0
    return res


def run_unit(uid, cfg, tier='quick'):
    if cfg['kind'] == 'native':
        return run_native_unit(uid, cfg, tier)
    if cfg['kind'] == 'verus':
        return run_verus_unit(uid, cfg, tier)
    if cfg['kind'] == 'kani':
        return run_kani_unit(uid, cfg, tier)
    raise ValueError(cfg['kind'])


if __name__ == '__main__':
    import units
    uid = sys.argv[1]
    r = run_unit(uid, units.UNITS[uid], sys.argv[2] if len(sys.argv) > 2 else 'quick')
    r2 = dict(r)
    for k in ('items', 'clauses', 'functions', 'raw'):
        r2.pop(k, None)
    print(json.dumps(r2, indent=1))
    if r.get('raw'):
        print(r['raw'])
