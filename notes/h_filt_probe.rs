use futures::executor::block_on;
use locustdb::{LocustDB, Options, Value};
use locustdb_serialization::api::AnyVal;
use locustdb_serialization::event_buffer::{EventBuffer, TableBuffer};
use std::sync::Arc;
use std::time::Duration;

fn new_db(dir: &std::path::Path) -> Arc<LocustDB> {
    Arc::new(LocustDB::new(&Options {
        threads: 1,
        read_threads: 1,
        db_path: Some(dir.to_path_buf()),
        metrics_table_name: None,
        // keep every flushed batch as its own partition
        partition_combine_factor: 999_999_999,
        ..Options::default()
    }))
}

/// Ingests the rows as one batch and flushes it, which yields one partition per call.
fn ingest_partition(db: &LocustDB, rows: Vec<Vec<(&str, AnyVal)>>) {
    let mut tb = TableBuffer::default();
    for (i, row) in rows.into_iter().enumerate() {
        let mut r: Vec<(String, AnyVal)> =
            row.into_iter().map(|(k, v)| (k.to_string(), v)).collect();
        r.push(("timestamp".to_string(), AnyVal::Int(i as i64)));
        tb.push_row_and_timestamp(r);
    }
    let mut eb = EventBuffer::default();
    eb.tables.insert("t".to_string(), tb);
    block_on(db.ingest_efficient(eb));
    db.force_flush();
}

/// Runs the query on a helper thread so that a crashed query worker shows up as a test failure instead of a hang.
fn query_sorted(db: &Arc<LocustDB>, sql: &str) -> Vec<Vec<Value>> {
    let (tx, rx) = std::sync::mpsc::channel();
    let db2 = db.clone();
    let sql2 = sql.to_string();
    std::thread::spawn(move || {
        let r = block_on(db2.run_query(&sql2, false, true, vec![]));
        let _ = tx.send(r);
    });
    let result = rx
        .recv_timeout(Duration::from_secs(30))
        .unwrap_or_else(|_| panic!("query did not finish: {sql}"));
    let mut rows = result
        .unwrap_or_else(|e| panic!("query failed: {sql}: {e:?}"))
        .rows
        .unwrap();
    rows.sort();
    rows
}

use AnyVal::Int as I;
use Value::Int;

/// Two grouping columns that are combined into one bit-packed key. `a` is a non-nullable integer column whose
/// values span more than 32 bits and start below zero, so it is stored as plain i64 with range
/// [-3_000_000_000, 3_000_000_000]; `b` is in [0, 3]. Every (b, a) combination has to come back exactly once
/// with its own COUNT and SUM.
#[test]
fn two_grouping_columns_one_wide_with_negative_values() {
    let dir = tempfile::tempdir().unwrap();
    let db = new_db(dir.path());
    ingest_partition(
        &db,
        vec![
            vec![("a", I(3)), ("b", I(1)), ("x", I(10))],
            vec![("a", I(1)), ("b", I(2)), ("x", I(20))],
            vec![("a", I(5)), ("b", I(3)), ("x", I(30))],
            vec![("a", I(1)), ("b", I(2)), ("x", I(40))],
            vec![("a", I(0)), ("b", I(0)), ("x", I(50))],
            vec![("a", I(7)), ("b", I(1)), ("x", I(60))],
            vec![("a", I(1)), ("b", I(0)), ("x", I(70))],
        ],
    );

    {
        let r = block_on(db.run_query("SELECT b, a, count(1), sum(x) FROM t WHERE x > 15", true, true, vec![])).unwrap();
        for (k, v) in r.query_plans.iter() { println!("PLAN x{}\n{}", v, k); }
    }
    for sql in ["SELECT b, a, count(1), sum(x) FROM t WHERE a < 0", "SELECT b, a, count(1), sum(x) FROM t", "SELECT a, count(1), sum(x) FROM t WHERE a < 0", "SELECT b, count(1), sum(x) FROM t WHERE a < 0", "SELECT b, a, x FROM t WHERE a < 0", "SELECT b, a, count(1) FROM t WHERE a < 0", "SELECT b, a, sum(x) FROM t WHERE a < 0", "SELECT b, a, count(1), sum(x) FROM t WHERE x > 15", "SELECT b, a, count(1), sum(x) FROM t WHERE b > 0"] {
        println!("FILT {:60} {:?}", sql, query_sorted(&db, sql));
    }
}
