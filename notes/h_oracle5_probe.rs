use std::collections::{BTreeMap, HashMap};
use std::panic::AssertUnwindSafe;
use futures::executor::block_on;
use locustdb::{LocustDB, Options, Value};
use locustdb_serialization::event_buffer::{EventBuffer, TableBuffer};
use locustdb_serialization::api::AnyVal;

#[derive(Clone, Debug)]
struct Row { id: i64, g: i64, h: Option<i64>, s: String, x: i64, y: Option<i64> }
fn rows(n: i64) -> Vec<Row> {
    (0..n).map(|i| Row { id: i, g: (i * 7) % 3, h: if i % 4 == 1 { None } else { Some((i * 5) % 4 - 1) }, s: format!("k{}", (i * 3) % 4), x: (i * 37) % 50, y: if i % 3 == 0 { None } else { Some((i * 11) % 7 - 3) } }).collect()
}
fn build(dir: Option<std::path::PathBuf>, batch: usize, data: &[Row]) -> std::sync::Arc<LocustDB> {
    let db = std::sync::Arc::new(LocustDB::new(&Options { threads: 4, read_threads: 1, db_path: dir, metrics_table_name: None, partition_combine_factor: 999999, ..Options::default() }));
    for chunk in data.chunks(batch) {
        let mut tb = TableBuffer::default();
        for r in chunk {
            let mut v = vec![("id".to_string(), AnyVal::Int(r.id)), ("g".to_string(), AnyVal::Int(r.g)), ("s".to_string(), AnyVal::Str(r.s.clone())), ("x".to_string(), AnyVal::Int(r.x))];
            if let Some(h) = r.h { v.push(("h".to_string(), AnyVal::Int(h))); }
            if let Some(y) = r.y { v.push(("y".to_string(), AnyVal::Int(y))); }
            tb.push_row_and_timestamp(v);
        }
        let mut tables = HashMap::new();
        tables.insert("t".to_string(), tb);
        block_on(db.ingest_efficient(EventBuffer { tables }));
        db.force_flush();
    }
    db
}
fn q(db: &std::sync::Arc<LocustDB>, sql: &str) -> Result<Vec<Vec<Value>>, String> {
    let (tx, rx) = std::sync::mpsc::channel();
    let db2 = db.clone(); let sql2 = sql.to_string();
    std::thread::spawn(move || {
        let r = std::panic::catch_unwind(AssertUnwindSafe(|| block_on(db2.run_query(&sql2, false, true, vec![]))));
        let s = match r { Ok(Ok(out)) => Ok(out.rows.unwrap_or_default()), Ok(Err(e)) => Err(format!("ERR {:?}", e).chars().take(120).collect()), Err(_) => Err("PANIC-in-caller".to_string()) };
        let _ = tx.send(s);
    });
    rx.recv_timeout(std::time::Duration::from_secs(20)).unwrap_or_else(|_| Err("NO ANSWER within 20 s".to_string()))
}
fn key(r: &Row, k: &str) -> Value { match k { "g" => Value::Int(r.g), "h" => r.h.map(Value::Int).unwrap_or(Value::Null), "s" => Value::Str(r.s.clone()), _ => unreachable!() } }
#[test]
fn agg_order_oracle() {
    let data = rows(60);
    let dir = std::env::temp_dir().join(format!("vx_oracle5_{}", std::process::id()));
    let _ = std::fs::remove_dir_all(&dir);
    let dbs = vec![("one", build(None, 60, &data)), ("many", build(Some(dir.clone()), 7, &data))];
    let mut bad = 0; let mut total = 0;
    // groups by g (never NULL) and by s; aggregates sum(x), count(1), max(x); ordered by an aggregate or by the key
    let mut by_g: BTreeMap<i64, (i64, i64, i64)> = BTreeMap::new();
    for r in data.iter() { let e = by_g.entry(r.g).or_insert((0, 0, i64::MIN)); e.0 += r.x; e.1 += 1; e.2 = e.2.max(r.x); }
    let mut by_s: BTreeMap<String, (i64, i64, i64)> = BTreeMap::new();
    for r in data.iter() { let e = by_s.entry(r.s.clone()).or_insert((0, 0, i64::MIN)); e.0 += r.x; e.1 += 1; e.2 = e.2.max(r.x); }
    let g_rows: Vec<(Value, i64, i64, i64)> = by_g.iter().map(|(k, v)| (Value::Int(*k), v.0, v.1, v.2)).collect();
    let s_rows: Vec<(Value, i64, i64, i64)> = by_s.iter().map(|(k, v)| (Value::Str(k.clone()), v.0, v.1, v.2)).collect();
    for (key, rows_) in [("g", &g_rows), ("s", &s_rows)] {
        for (ord, f) in [("sum(x)", 1usize), ("count(1)", 2), ("max(x)", 3)] { for desc in [false, true] { for (limit, offset) in [(1, 0), (2, 1), (10, 0), (2, 3)] {
            let sql = format!("SELECT {}, sum(x), count(1), max(x) FROM t ORDER BY {}{}, {} LIMIT {} OFFSET {}", key, ord, if desc { " DESC" } else { "" }, key, limit, offset);
            let mut v: Vec<&(Value, i64, i64, i64)> = rows_.iter().collect();
            v.sort_by(|a, b| { let (x, y) = match f { 1 => (a.1, b.1), 2 => (a.2, b.2), _ => (a.3, b.3) }; let o = if desc { y.cmp(&x) } else { x.cmp(&y) }; o.then(a.0.cmp(&b.0)) });
            let want: Vec<Vec<Value>> = v.iter().skip(offset).take(limit).map(|r| vec![r.0.clone(), Value::Int(r.1), Value::Int(r.2), Value::Int(r.3)]).collect();
            for (name, db) in &dbs {
                total += 1;
                match q(db, &sql) {
                    Ok(got) => { if got != want { bad += 1; println!("AORACLE DIFFERENT [{}] {}\n   got:  {:?}\n   want: {:?}", name, sql, &got[..got.len().min(6)], &want[..want.len().min(6)]); } }
                    Err(e) => { bad += 1; println!("AORACLE {} [{}] {}", e, name, sql); }
                }
            }
        } } }
    }
    println!("AORACLE done, {} mismatching of {}", bad, total);
    let _ = std::fs::remove_dir_all(&dir);
}
