use std::collections::HashMap;
use std::panic::AssertUnwindSafe;
use futures::executor::block_on;
use locustdb::{LocustDB, Options, Value};
use locustdb_serialization::event_buffer::{ColumnBuffer, ColumnData, EventBuffer, TableBuffer};
use locustdb_serialization::api::AnyVal;

fn q(db: &std::sync::Arc<LocustDB>, sql: &str) -> Result<Vec<Vec<Value>>, String> {
    let (tx, rx) = std::sync::mpsc::channel();
    let db2 = db.clone(); let sql2 = sql.to_string();
    std::thread::spawn(move || {
        let r = std::panic::catch_unwind(AssertUnwindSafe(|| block_on(db2.run_query(&sql2, false, true, vec![]))));
        let s = match r { Ok(Ok(out)) => Ok(out.rows.unwrap_or_default()), Ok(Err(e)) => Err(format!("ERR {:?}", e).chars().take(120).collect()), Err(_) => Err("PANIC-in-caller".to_string()) };
        let _ = tx.send(s);
    });
    rx.recv_timeout(std::time::Duration::from_secs(20)).unwrap_or_else(|_| Err("NO ANSWER within 20 s".to_string()))
}
fn check(name: &str, vals: Vec<AnyVal>, flush: bool) {
    let dir = std::env::temp_dir().join(format!("vx_num_{}_{}", std::process::id(), name));
    let _ = std::fs::remove_dir_all(&dir);
    let db = std::sync::Arc::new(LocustDB::new(&Options { threads: 2, read_threads: 1, db_path: if flush { Some(dir.clone()) } else { None }, metrics_table_name: None, ..Options::default() }));
    let mut tb = TableBuffer::default();
    for (i, v) in vals.iter().enumerate() {
        let mut row = vec![("id".to_string(), AnyVal::Int(i as i64))];
        if !matches!(v, AnyVal::Null) { row.push(("v".to_string(), v.clone())); }
        tb.push_row_and_timestamp(row);
    }
    let mut tables = HashMap::new();
    tables.insert("t".to_string(), tb);
    block_on(db.ingest_efficient(EventBuffer { tables }));
    if flush { db.force_flush(); }
    let any_float = vals.iter().any(|v| matches!(v, AnyVal::Float(_)));
    match q(&db, "SELECT id, v FROM t ORDER BY id") {
        Ok(got) => {
            let mut bad = None;
            for (i, v) in vals.iter().enumerate() {
                let g = got.get(i).map(|r| r[1].clone());
                let ok = match (v, &g) {
                    (AnyVal::Null, Some(Value::Null)) => true,
                    (AnyVal::Int(x), Some(Value::Int(y))) => !any_float && x == y,
                    (AnyVal::Int(x), Some(Value::Float(y))) => any_float && (*x as f64).to_bits() == y.0.to_bits(),
                    (AnyVal::Float(x), Some(Value::Float(y))) => x.to_bits() == y.0.to_bits(),
                    _ => false,
                };
                if !ok && bad.is_none() { bad = Some(format!("row {}: put {:?} got {:?}", i, v, g)); }
            }
            println!("NUM {:24} flush={} rows={} {}", name, flush, got.len(), bad.unwrap_or_else(|| "same".to_string()));
        }
        Err(e) => println!("NUM {:24} flush={} {}", name, flush, e),
    }
    let _ = std::fs::remove_dir_all(&dir);
}
#[test]
fn numeric_roundtrips() {
    use AnyVal::*;
    for flush in [false, true] {
        check("small_ints", (0..40).map(|i| Int(i % 7)).collect(), flush);
        check("u8_edge", vec![Int(0), Int(255), Int(256), Int(1)], flush);
        check("offset_u8", vec![Int(1000), Int(1255), Int(1001)], flush);
        check("offset_u8_256", vec![Int(1000), Int(1256), Int(1001)], flush);
        check("negative_u16", vec![Int(-70000), Int(-4465), Int(-70000 + 65535)], flush);
        check("u32_edge", vec![Int(0), Int(4294967295), Int(4294967296)], flush);
        check("i64_extremes", vec![Int(i64::MIN), Int(i64::MAX - 1), Int(0)], flush);
        check("i64_min_only", vec![Int(i64::MIN), Int(i64::MIN + 1)], flush);
        check("near_max", vec![Int(i64::MAX - 1), Int(i64::MAX - 2), Int(i64::MAX - 300)], flush);
        check("delta_increasing", (0..50).map(|i| Int(1_000_000_000_000 + i * i)).collect(), flush);
        check("delta_big_steps", vec![Int(-4_000_000_000_000_000_000), Int(0), Int(4_000_000_000_000_000_000), Int(4_000_000_000_000_000_001)], flush);
        check("ints_with_nulls", vec![Int(5), Null, Int(-3), Null, Null, Int(255), Int(0)], flush);
        check("null_first", vec![Null, Null, Int(7), Int(8)], flush);
        check("floats", vec![Float(0.5), Float(-0.0), Float(0.0), Float(f64::MAX), Float(f64::MIN_POSITIVE), Float(5e-324), Float(f64::INFINITY), Float(f64::NEG_INFINITY), Float(f64::NAN)], flush);
        check("floats_with_nulls", vec![Float(1.5), Null, Float(-2.25), Null], flush);
        check("int_then_float", vec![Int(1), Int(2), Float(0.5), Int(3)], flush);
        check("int_then_float_big", vec![Int(9007199254740993), Float(0.5)], flush);
        check("float_then_int_null", vec![Float(0.5), Null, Int(4), Null, Int(-1)], flush);
        check("f32_like", vec![Float(1.5), Float(2.25), Float(-3.125), Float(1024.0)], flush);
    }
}
