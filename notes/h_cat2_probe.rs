use std::collections::HashMap;
use std::panic::AssertUnwindSafe;
use futures::executor::block_on;
use locustdb::{LocustDB, Options, Value};
use locustdb_serialization::event_buffer::{EventBuffer, TableBuffer};
use locustdb_serialization::api::AnyVal;

fn q(db: &std::sync::Arc<LocustDB>, sql: &str) -> Result<Vec<Vec<Value>>, String> {
    let (tx, rx) = std::sync::mpsc::channel();
    let db2 = db.clone(); let sql2 = sql.to_string();
    std::thread::spawn(move || {
        let r = std::panic::catch_unwind(AssertUnwindSafe(|| block_on(db2.run_query(&sql2, false, true, vec![]))));
        let s = match r { Ok(Ok(out)) => Ok(out.rows.unwrap_or_default()), Ok(Err(e)) => Err(format!("ERR {:?}", e).chars().take(120).collect()), Err(_) => Err("PANIC-in-caller".to_string()) };
        let _ = tx.send(s);
    });
    rx.recv_timeout(std::time::Duration::from_secs(30)).unwrap_or_else(|_| Err("NO ANSWER within 30 s".to_string()))
}
fn open(dir: &std::path::Path, combine: u64) -> std::sync::Arc<LocustDB> {
    std::sync::Arc::new(LocustDB::new(&Options { threads: 4, read_threads: 1, db_path: Some(dir.to_path_buf()), metrics_table_name: None, partition_combine_factor: combine, max_wal_size_bytes: 2000, ..Options::default() }))
}
fn row(i: i64) -> Vec<(String, AnyVal)> {
    let mut r = vec![("id".to_string(), AnyVal::Int(i))];
    if i % 3 != 1 { r.push(("a".to_string(), AnyVal::Int(i * 1000003 % 50000 - 20000))); }
    if i % 4 != 2 { r.push(("f".to_string(), AnyVal::Float((i as f64) * 0.25 - 3.0))); }
    r.push(("s".to_string(), AnyVal::Str(if i % 5 == 0 { "".to_string() } else { format!("str{}", i % 11) })));
    if i >= 25 { r.push(("late".to_string(), AnyVal::Int(i - 25))); }
    if i % 7 == 0 { r.push(("rare".to_string(), AnyVal::Int(i))); }
    r
}
fn expect(i: i64, col: &str) -> Value {
    for (k, v) in row(i) { if k == col { return match v { AnyVal::Int(x) => Value::Int(x), AnyVal::Float(f) => Value::Float(ordered_float::OrderedFloat(f)), AnyVal::Str(s) => Value::Str(s), AnyVal::Null => Value::Null }; } }
    Value::Null
}
fn compare(tag: &str, db: &std::sync::Arc<LocustDB>, n: i64) {
    match q(db, "SELECT id, a, f, s, late, rare FROM t ORDER BY id") {
        Ok(got) => {
            let mut bad = None;
            if got.len() as i64 != n { bad = Some(format!("{} rows instead of {}", got.len(), n)); }
            for (k, r) in got.iter().enumerate() {
                let i = k as i64;
                for (c, col) in ["id", "a", "f", "s", "late", "rare"].iter().enumerate() {
                    if bad.is_none() && r[c] != expect(i, col) { bad = Some(format!("row {} column {}: got {:?} want {:?}", i, col, r[c], expect(i, col))); }
                }
            }
            println!("HIST {:34} {}", tag, bad.unwrap_or_else(|| "same".to_string()));
        }
        Err(e) => println!("HIST {:34} {}", tag, e),
    }
}
#[test]
fn catalogue_with_two_tables() {
    let dir = std::env::temp_dir().join(format!("vx_cat2_{}", std::process::id()));
    let _ = std::fs::remove_dir_all(&dir);
    let mut n = 0i64;
    for round in 0..4 {
        let db = open(&dir, 2);
        for b in 0..3 {
            let mut tables = HashMap::new();
            for (ti, t) in ["t", "U", "u"].iter().enumerate() {
                if (b + ti + round) % 3 == 2 { continue; }
                let mut tb = TableBuffer::default();
                for _ in 0..5 {
                    let mut r = vec![("id".to_string(), AnyVal::Int(n))];
                    if round >= ti { r.push((format!("c{}", ti), AnyVal::Int(n))); }
                    if round == 2 { r.push(("Late".to_string(), AnyVal::Str("x".to_string()))); }
                    tb.push_row_and_timestamp(r); n += 1;
                }
                tables.insert(t.to_string(), tb);
            }
            block_on(db.ingest_efficient(EventBuffer { tables }));
            if b != 1 { db.force_flush(); }
        }
        for sql in ["SELECT name FROM _meta_tables", "SELECT column_name FROM \"_meta_columns_t\"", "SELECT column_name FROM \"_meta_columns_U\"", "SELECT column_name FROM \"_meta_columns_u\"", "SELECT * FROM t LIMIT 1", "SELECT * FROM u LIMIT 1", "SELECT * FROM U LIMIT 1", "SELECT count(1) FROM t", "SELECT count(1) FROM u", "SELECT count(1) FROM U"] {
            let out = block_on(db.run_query(sql, false, true, vec![]));
            match out { Ok(o) => { let mut rows: Vec<String> = o.rows.unwrap_or_default().iter().map(|r| format!("{:?}", r)).collect(); rows.sort(); let mut c = o.colnames.clone(); c.sort(); println!("CAT2 round {} {:45} cols={:?} rows={:?}", round, sql, c, rows) } , other => println!("CAT2 round {} {:45} {:?}", round, sql, other.map(|_| ())) }
        }
        drop(db);
    }
    let _ = std::fs::remove_dir_all(&dir);
}
