use std::collections::HashMap;
use std::panic::AssertUnwindSafe;
use futures::executor::block_on;
use locustdb::{LocustDB, Options};
use locustdb_serialization::event_buffer::{ColumnBuffer, ColumnData, EventBuffer, TableBuffer};

fn eb(table: &str, cols: Vec<(&str, ColumnData)>) -> EventBuffer {
    let mut m = HashMap::new();
    for (n, d) in cols { m.insert(n.to_string(), ColumnBuffer { data: d }); }
    let mut tables = HashMap::new();
    tables.insert(table.to_string(), TableBuffer::new(m));
    EventBuffer { tables }
}
fn q(db: &LocustDB, sql: &str) -> String {
    let r = std::panic::catch_unwind(AssertUnwindSafe(|| block_on(db.run_query(sql, false, true, vec![]))));
    match r {
        Ok(Ok(out)) => format!("OK rows={:?}", out.rows),
        Ok(Err(e)) => format!("ERR {:?}", e).chars().take(300).collect(),
        Err(_) => "PANIC-in-caller".to_string(),
    }
}
fn mem() -> LocustDB { LocustDB::new(&Options { threads: 2, read_threads: 1, metrics_table_name: None, ..Options::default() }) }

#[test]
fn bits_pow2() {
    for k in [40u32, 48, 49, 50, 53] {
        let db = mem();
        let big = 1i64 << k;
        // four distinct (a, b) groups: (0,0) (big,0) (0,1) (big,1)
        block_on(db.ingest_efficient(eb("t", vec![("a", ColumnData::I64(vec![0, big, 0, big, 0])), ("b", ColumnData::I64(vec![0, 0, 1, 1, 1]))])));
        db.force_flush();
        println!("k={} {}", k, q(&db, "SELECT a, b, count(1) FROM t"));
        println!("k={} rev {}", k, q(&db, "SELECT b, a, count(1) FROM t"));
        println!("k={} rev-ordered {}", k, q(&db, "SELECT b, a, count(1) FROM t ORDER BY b, a"));
    }
}

#[test]
fn widest_field() {
    let db = mem();
    let big = 1i64 << 62;
    block_on(db.ingest_efficient(eb("t", vec![("a", ColumnData::I64(vec![0, big, 0, big + 5, 0])), ("b", ColumnData::I64(vec![0, 0, 0, 0, 0]))])));
    db.force_flush();
    println!("W {}", q(&db, "SELECT a, b, count(1) FROM t"));
    println!("W2 {}", q(&db, "SELECT b, a, count(1) FROM t"));
}

#[test]
fn full_range() {
    let db = mem();
    let lo = i64::MIN + 10; let hi = i64::MAX - 10;
    block_on(db.ingest_efficient(eb("t", vec![("a", ColumnData::I64(vec![lo, hi, 5, hi, 5])), ("b", ColumnData::I64(vec![0, 0, 1, 1, 1]))])));
    db.force_flush();
    println!("F {}", q(&db, "SELECT a, b, count(1) FROM t"));
    println!("F2 {}", q(&db, "SELECT b, a, count(1) FROM t"));
    println!("F3 {}", q(&db, "SELECT a, count(1) FROM t"));
}

#[test]
fn narrow_nullable() {
    let db = mem();
    // nullable column whose values fill u8: 0..=255, NULL in the last two rows
    let mut tb = TableBuffer::default();
    for i in 0..258i64 {
        let mut row = vec![("id".to_string(), locustdb_serialization::api::AnyVal::Int(i))];
        if i < 256 { row.push(("a".to_string(), locustdb_serialization::api::AnyVal::Int(i))); }
        tb.push_row_and_timestamp(row);
    }
    let mut tables = HashMap::new();
    tables.insert("t".to_string(), tb);
    block_on(db.ingest_efficient(EventBuffer { tables }));
    db.force_flush();
    println!("N0 {}", q(&db, "SELECT count(1) FROM t WHERE a IS NULL"));
    println!("N1 {}", q(&db, "SELECT a, count(1) FROM t WHERE a > 250"));
    println!("N2 {}", q(&db, "SELECT a, count(1) FROM t WHERE id > 250"));
}
