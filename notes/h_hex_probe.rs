use std::collections::HashMap;
use futures::executor::block_on;
use locustdb::{LocustDB, Options};
use locustdb_serialization::event_buffer::{ColumnBuffer, ColumnData, EventBuffer, TableBuffer};

fn eb(table: &str, cols: Vec<(&str, ColumnData)>) -> EventBuffer {
    let mut m = HashMap::new();
    for (n, d) in cols { m.insert(n.to_string(), ColumnBuffer { data: d }); }
    let mut tables = HashMap::new();
    tables.insert(table.to_string(), TableBuffer::new(m));
    EventBuffer { tables }
}

#[test]
fn hex_compaction() {
    let dir = std::env::temp_dir().join(format!("vx_hex_{}", std::process::id()));
    let _ = std::fs::remove_dir_all(&dir);
    let opts = Options { threads: 2, read_threads: 1, db_path: Some(dir.clone()), metrics_table_name: None, partition_combine_factor: 2, ..Options::default() };
    let db = std::sync::Arc::new(LocustDB::new(&opts));
    for b in 0..4 {
        let strs: Vec<String> = (0..50).map(|i| format!("{:032x}", (b * 1000 + i) as u128 * 0x9e3779b97f4a7c15u128)).collect();
        block_on(db.ingest_efficient(eb("t", vec![("h", ColumnData::String(strs))])));
        let (tx, rx) = std::sync::mpsc::channel();
        let db2 = db.clone();
        std::thread::spawn(move || { db2.force_flush(); let _ = tx.send(()); });
        match rx.recv_timeout(std::time::Duration::from_secs(20)) {
            Ok(()) => println!("HX flush {} returned", b),
            Err(_) => { println!("HX flush {} DID NOT RETURN within 20 s", b); break; }
        }
    }
    let _ = std::fs::remove_dir_all(&dir);
}
