use std::collections::HashMap;
use std::panic::AssertUnwindSafe;
use futures::executor::block_on;
use locustdb::{LocustDB, Options};
use locustdb_serialization::event_buffer::{EventBuffer, TableBuffer};
use locustdb_serialization::api::AnyVal;

fn q(db: &std::sync::Arc<LocustDB>, sql: &str, sort: bool) -> String {
    let (tx, rx) = std::sync::mpsc::channel();
    let db2 = db.clone(); let sql2 = sql.to_string();
    std::thread::spawn(move || {
        let r = std::panic::catch_unwind(AssertUnwindSafe(|| block_on(db2.run_query(&sql2, false, true, vec![]))));
        let s = match r {
            Ok(Ok(out)) => { let mut rows: Vec<String> = out.rows.unwrap_or_default().iter().map(|r| format!("{:?}", r)).collect(); if sort { rows.sort(); } format!("OK {}", rows.join(" ")) }
            Ok(Err(e)) => format!("ERR {:?}", e).chars().take(100).collect(),
            Err(_) => "PANIC-in-caller".to_string(),
        };
        let _ = tx.send(s);
    });
    rx.recv_timeout(std::time::Duration::from_secs(15)).unwrap_or_else(|_| "NO ANSWER within 15 s".to_string())
}
fn row(i: i64) -> Vec<(String, AnyVal)> {
    let mut r = vec![("id".to_string(), AnyVal::Int(i)), ("g".to_string(), AnyVal::Int(i % 3)), ("s".to_string(), AnyVal::Str(format!("k{}", (i * 7) % 5)))];
    if i % 4 != 1 { r.push(("a".to_string(), AnyVal::Int((i * 37) % 11 - 5))); }
    if i % 5 != 2 { r.push(("f".to_string(), AnyVal::Float(((i * 13) % 7) as f64 * 0.5 - 1.0))); }
    if i >= 20 { r.push(("late".to_string(), AnyVal::Int(i * 1000))); }
    r
}
fn build(dir: Option<std::path::PathBuf>, batch: usize, n: i64) -> std::sync::Arc<LocustDB> {
    let db = std::sync::Arc::new(LocustDB::new(&Options { threads: 4, read_threads: 1, db_path: dir, metrics_table_name: None, partition_combine_factor: 2, ..Options::default() }));
    let mut i = 0;
    while i < n {
        let mut tb = TableBuffer::default();
        for k in i..std::cmp::min(n, i + batch as i64) { tb.push_row_and_timestamp(row(k)); }
        let mut tables = HashMap::new();
        tables.insert("t".to_string(), tb);
        block_on(db.ingest_efficient(EventBuffer { tables }));
        db.force_flush();
        i += batch as i64;
    }
    db
}
#[test]
fn one_vs_many_partitions() {
    let dir = std::env::temp_dir().join(format!("vx_diff_{}", std::process::id()));
    let _ = std::fs::remove_dir_all(&dir);
    let one = build(None, 40, 40);
    let many = build(Some(dir.clone()), 5, 40);
    let queries: Vec<(&str, bool)> = vec![
        ("SELECT id, a, f, s, late FROM t", true), ("SELECT id FROM t ORDER BY a, id LIMIT 7", false), ("SELECT id FROM t ORDER BY a DESC, id LIMIT 7", false),
        ("SELECT id FROM t ORDER BY f, id LIMIT 9", false), ("SELECT id FROM t ORDER BY s, id DESC LIMIT 9", false), ("SELECT id FROM t ORDER BY a LIMIT 3 OFFSET 5", false),
        ("SELECT g, count(1), count(a), sum(a), min(a), max(a) FROM t", true), ("SELECT g, sum(f), min(f), max(f) FROM t", true), ("SELECT s, g, count(1), sum(a) FROM t", true),
        ("SELECT a, count(1) FROM t", true), ("SELECT a, g, s, count(1) FROM t", true), ("SELECT late, count(1) FROM t", true), ("SELECT count(1) FROM t WHERE late IS NULL", true),
        ("SELECT id FROM t WHERE a > 0 AND f < 1", true), ("SELECT id FROM t WHERE a < 0 OR s = 'k3'", true), ("SELECT id FROM t WHERE s > 'k1' AND s <= 'k3'", true),
        ("SELECT id FROM t WHERE late > 25000", true), ("SELECT sum(late), max(late), min(late) FROM t", true), ("SELECT s, max(late) FROM t", true),
        ("SELECT g, avg(a) FROM t", true), ("SELECT count(1) FROM t WHERE a IS NULL", true), ("SELECT id FROM t ORDER BY late DESC, id LIMIT 4", false), ("SELECT id FROM t ORDER BY late, id LIMIT 4", false),
        ("SELECT id FROM t ORDER BY id DESC LIMIT 3", false), ("SELECT s, count(1) FROM t ORDER BY count(1) DESC, s LIMIT 2", false), ("SELECT a + g, count(1) FROM t", true),
    ];
    for (sql, sort) in queries {
        let (r1, r2) = (q(&one, sql, sort), q(&many, sql, sort));
        println!("DIFF {} {:70} {}", if r1 == r2 { "same" } else { "DIFFERENT" }, sql, if r1 == r2 { r1.chars().take(60).collect::<String>() } else { format!("\n   one:  {}\n   many: {}", r1.chars().take(400).collect::<String>(), r2.chars().take(400).collect::<String>()) });
    }
    let _ = std::fs::remove_dir_all(&dir);
}
