use std::collections::{BTreeMap, HashMap};
use std::panic::AssertUnwindSafe;
use futures::executor::block_on;
use locustdb::{LocustDB, Options, Value};
use locustdb_serialization::event_buffer::{EventBuffer, TableBuffer};
use locustdb_serialization::api::AnyVal;

#[derive(Clone, Debug)]
struct Row { id: i64, g: i64, h: Option<i64>, s: String, x: i64, y: Option<i64> }
fn rows(n: i64) -> Vec<Row> {
    (0..n).map(|i| Row { id: i, g: (i * 7) % 3, h: if i % 4 == 1 { None } else { Some((i * 5) % 4 - 1) }, s: format!("k{}", (i * 3) % 4), x: (i * 37) % 50, y: if i % 3 == 0 { None } else { Some((i * 11) % 7 - 3) } }).collect()
}
fn build(dir: Option<std::path::PathBuf>, batch: usize, data: &[Row]) -> std::sync::Arc<LocustDB> {
    let db = std::sync::Arc::new(LocustDB::new(&Options { threads: 4, read_threads: 1, db_path: dir, metrics_table_name: None, partition_combine_factor: 999999, ..Options::default() }));
    for chunk in data.chunks(batch) {
        let mut tb = TableBuffer::default();
        for r in chunk {
            let mut v = vec![("id".to_string(), AnyVal::Int(r.id)), ("g".to_string(), AnyVal::Int(r.g)), ("s".to_string(), AnyVal::Str(r.s.clone())), ("x".to_string(), AnyVal::Int(r.x))];
            if let Some(h) = r.h { v.push(("h".to_string(), AnyVal::Int(h))); }
            if let Some(y) = r.y { v.push(("y".to_string(), AnyVal::Int(y))); }
            tb.push_row_and_timestamp(v);
        }
        let mut tables = HashMap::new();
        tables.insert("t".to_string(), tb);
        block_on(db.ingest_efficient(EventBuffer { tables }));
        db.force_flush();
    }
    db
}
fn q(db: &std::sync::Arc<LocustDB>, sql: &str) -> Result<Vec<Vec<Value>>, String> {
    let (tx, rx) = std::sync::mpsc::channel();
    let db2 = db.clone(); let sql2 = sql.to_string();
    std::thread::spawn(move || {
        let r = std::panic::catch_unwind(AssertUnwindSafe(|| block_on(db2.run_query(&sql2, false, true, vec![]))));
        let s = match r { Ok(Ok(out)) => Ok(out.rows.unwrap_or_default()), Ok(Err(e)) => Err(format!("ERR {:?}", e).chars().take(120).collect()), Err(_) => Err("PANIC-in-caller".to_string()) };
        let _ = tx.send(s);
    });
    rx.recv_timeout(std::time::Duration::from_secs(20)).unwrap_or_else(|_| Err("NO ANSWER within 20 s".to_string()))
}
fn key(r: &Row, k: &str) -> Value { match k { "g" => Value::Int(r.g), "h" => r.h.map(Value::Int).unwrap_or(Value::Null), "s" => Value::Str(r.s.clone()), _ => unreachable!() } }
#[test]
fn order_oracle_str_float() {
    let data = rows(60);
    let dir = std::env::temp_dir().join(format!("vx_oracle4_{}", std::process::id()));
    let _ = std::fs::remove_dir_all(&dir);
    let dbs = vec![("one", build(None, 60, &data)), ("many", build(Some(dir.clone()), 7, &data))];
    let mut bad = 0; let mut total = 0;
    // string key; expression keys; two keys with mixed directions
    let specs: Vec<(&str, Box<dyn Fn(&Row, &Row) -> std::cmp::Ordering>)> = vec![
        ("s, id", Box::new(|a, b| a.s.cmp(&b.s).then(a.id.cmp(&b.id)))),
        ("s DESC, id", Box::new(|a, b| b.s.cmp(&a.s).then(a.id.cmp(&b.id)))),
        ("s, x DESC, id", Box::new(|a, b| a.s.cmp(&b.s).then(b.x.cmp(&a.x)).then(a.id.cmp(&b.id)))),
        ("g DESC, s, id DESC", Box::new(|a, b| b.g.cmp(&a.g).then(a.s.cmp(&b.s)).then(b.id.cmp(&a.id)))),
        ("x + g, id", Box::new(|a, b| (a.x + a.g).cmp(&(b.x + b.g)).then(a.id.cmp(&b.id)))),
        ("x / 7 DESC, id", Box::new(|a, b| (b.x / 7).cmp(&(a.x / 7)).then(a.id.cmp(&b.id)))),
        ("g, h, id", Box::new(|a, b| a.g.cmp(&b.g).then((a.h.is_none(), a.h).cmp(&(b.h.is_none(), b.h))).then(a.id.cmp(&b.id)))),
        ("g, h DESC, id", Box::new(|a, b| a.g.cmp(&b.g).then((b.h.is_some(), b.h).cmp(&(a.h.is_some(), a.h))).then(a.id.cmp(&b.id)))),
    ];
    for (keys, cmpf) in specs.iter() { for (limit, offset) in [(1, 0), (4, 0), (6, 5), (29, 0), (31, 1), (100, 0)] { for filt in ["", "WHERE x > 15"] {
        let sql = format!("SELECT id FROM t {} ORDER BY {} LIMIT {} OFFSET {}", filt, keys, limit, offset);
        let mut rs: Vec<&Row> = data.iter().filter(|r| filt.is_empty() || r.x > 15).collect();
        rs.sort_by(|a, b| cmpf(a, b));
        let want: Vec<Vec<Value>> = rs.iter().skip(offset).take(limit).map(|r| vec![Value::Int(r.id)]).collect();
        for (name, db) in &dbs {
            total += 1;
            match q(db, &sql) {
                Ok(got) => { if got != want { bad += 1; println!("OORACLE DIFFERENT [{}] {}\n   got:  {:?}\n   want: {:?}", name, sql, &got[..got.len().min(10)], &want[..want.len().min(10)]); } }
                Err(e) => { bad += 1; println!("OORACLE {} [{}] {}", e, name, sql); }
            }
        }
    } } }
    println!("OORACLE done, {} mismatching of {}", bad, total);
    let _ = std::fs::remove_dir_all(&dir);
}
