use std::collections::{BTreeMap, HashMap};
use std::panic::AssertUnwindSafe;
use futures::executor::block_on;
use locustdb::{LocustDB, Options, Value};
use locustdb_serialization::event_buffer::{EventBuffer, TableBuffer};
use locustdb_serialization::api::AnyVal;

#[derive(Clone, Debug)]
struct Row { id: i64, g: i64, h: Option<i64>, s: String, x: i64, y: Option<i64> }
fn rows(n: i64) -> Vec<Row> {
    (0..n).map(|i| Row { id: i, g: (i * 7) % 3, h: if i % 4 == 1 { None } else { Some((i * 5) % 4 - 1) }, s: format!("k{}", (i * 3) % 4), x: (i * 37) % 50, y: if i % 3 == 0 { None } else { Some((i * 11) % 7 - 3) } }).collect()
}
fn build(dir: Option<std::path::PathBuf>, batch: usize, data: &[Row]) -> std::sync::Arc<LocustDB> {
    let db = std::sync::Arc::new(LocustDB::new(&Options { threads: 4, read_threads: 1, db_path: dir, metrics_table_name: None, partition_combine_factor: 999999, ..Options::default() }));
    for chunk in data.chunks(batch) {
        let mut tb = TableBuffer::default();
        for r in chunk {
            let mut v = vec![("id".to_string(), AnyVal::Int(r.id)), ("g".to_string(), AnyVal::Int(r.g)), ("s".to_string(), AnyVal::Str(r.s.clone())), ("x".to_string(), AnyVal::Int(r.x))];
            if let Some(h) = r.h { v.push(("h".to_string(), AnyVal::Int(h))); }
            if let Some(y) = r.y { v.push(("y".to_string(), AnyVal::Int(y))); }
            tb.push_row_and_timestamp(v);
        }
        let mut tables = HashMap::new();
        tables.insert("t".to_string(), tb);
        block_on(db.ingest_efficient(EventBuffer { tables }));
        db.force_flush();
    }
    db
}
fn q(db: &std::sync::Arc<LocustDB>, sql: &str) -> Result<Vec<Vec<Value>>, String> {
    let (tx, rx) = std::sync::mpsc::channel();
    let db2 = db.clone(); let sql2 = sql.to_string();
    std::thread::spawn(move || {
        let r = std::panic::catch_unwind(AssertUnwindSafe(|| block_on(db2.run_query(&sql2, false, true, vec![]))));
        let s = match r { Ok(Ok(out)) => Ok(out.rows.unwrap_or_default()), Ok(Err(e)) => Err(format!("ERR {:?}", e).chars().take(120).collect()), Err(_) => Err("PANIC-in-caller".to_string()) };
        let _ = tx.send(s);
    });
    rx.recv_timeout(std::time::Duration::from_secs(20)).unwrap_or_else(|_| Err("NO ANSWER within 20 s".to_string()))
}
fn key(r: &Row, k: &str) -> Value { match k { "g" => Value::Int(r.g), "h" => r.h.map(Value::Int).unwrap_or(Value::Null), "s" => Value::Str(r.s.clone()), _ => unreachable!() } }
#[test]
fn big_oracle() {
    let data = rows(5000);
    let dir = std::env::temp_dir().join(format!("vx_oracle6_{}", std::process::id()));
    let _ = std::fs::remove_dir_all(&dir);
    let dbs = vec![("one", build(None, 5000, &data)), ("many", build(Some(dir.clone()), 1300, &data))];
    let mut bad = 0; let mut total = 0;
    let check = |sql: &str, want: Vec<Vec<Value>>, sort: bool, bad: &mut i32, total: &mut i32| {
        for (name, db) in &dbs {
            *total += 1;
            match q(db, sql) {
                Ok(mut got) => { let mut w = want.clone(); if sort { got.sort(); w.sort(); } if got != w { *bad += 1; let k = got.iter().zip(w.iter()).position(|(g, x)| g != x).unwrap_or(got.len().min(w.len())); println!("BORACLE DIFFERENT [{}] {} (got {} rows, want {}; first difference at {})\n   got:  {:?}\n   want: {:?}", name, sql, got.len(), w.len(), k, &got[k.min(got.len())..got.len().min(k + 3)], &w[k.min(w.len())..w.len().min(k + 3)]); } }
                Err(e) => { *bad += 1; println!("BORACLE {} [{}] {}", e, name, sql); }
            }
        }
    };
    let v = |o: Option<i64>| o.map(Value::Int).unwrap_or(Value::Null);
    check("SELECT id, h, y, s FROM t", data.iter().map(|r| vec![Value::Int(r.id), v(r.h), v(r.y), Value::Str(r.s.clone())]).collect(), true, &mut bad, &mut total);
    check("SELECT id, h FROM t WHERE x > 15", data.iter().filter(|r| r.x > 15).map(|r| vec![Value::Int(r.id), v(r.h)]).collect(), true, &mut bad, &mut total);
    check("SELECT id, y FROM t WHERE h < 2", data.iter().filter(|r| r.h.map_or(false, |h| h < 2)).map(|r| vec![Value::Int(r.id), v(r.y)]).collect(), true, &mut bad, &mut total);
    { let mut rs: Vec<&Row> = data.iter().collect(); rs.sort_by(|a, b| a.x.cmp(&b.x).then(a.id.cmp(&b.id)));
      check("SELECT id, h, y FROM t ORDER BY x, id", rs.iter().map(|r| vec![Value::Int(r.id), v(r.h), v(r.y)]).collect(), false, &mut bad, &mut total);
      check("SELECT id, h FROM t ORDER BY x, id LIMIT 1500 OFFSET 1000", rs.iter().skip(1000).take(1500).map(|r| vec![Value::Int(r.id), v(r.h)]).collect(), false, &mut bad, &mut total);
      check("SELECT id, y FROM t ORDER BY x, id LIMIT 7", rs.iter().take(7).map(|r| vec![Value::Int(r.id), v(r.y)]).collect(), false, &mut bad, &mut total); }
    { let mut rs: Vec<&Row> = data.iter().collect(); rs.sort_by(|a, b| (a.h.is_none(), a.h).cmp(&(b.h.is_none(), b.h)).then(a.id.cmp(&b.id)));
      check("SELECT id, h, y FROM t ORDER BY h, id", rs.iter().map(|r| vec![Value::Int(r.id), v(r.h), v(r.y)]).collect(), false, &mut bad, &mut total);
      check("SELECT id, h FROM t ORDER BY h, id LIMIT 2600 OFFSET 10", rs.iter().skip(10).take(2600).map(|r| vec![Value::Int(r.id), v(r.h)]).collect(), false, &mut bad, &mut total); }
    { let mut m: BTreeMap<(Value, Value), (i64, i64)> = BTreeMap::new(); for r in data.iter() { let e = m.entry((Value::Int(r.g), Value::Str(r.s.clone()))).or_insert((0, 0)); e.0 += 1; e.1 += r.x; }
      check("SELECT g, s, count(1), sum(x) FROM t", m.into_iter().map(|((a, b), e)| vec![a, b, Value::Int(e.0), Value::Int(e.1)]).collect(), true, &mut bad, &mut total); }
    { let mut m: BTreeMap<Value, (i64, i64)> = BTreeMap::new(); for r in data.iter().filter(|r| r.x % 2 == 0) { let e = m.entry(Value::Int(r.x)).or_insert((0, 0)); e.0 += 1; e.1 += r.g; }
      check("SELECT x, count(1), sum(g) FROM t WHERE x % 2 = 0", m.into_iter().map(|(a, e)| vec![a, Value::Int(e.0), Value::Int(e.1)]).collect(), true, &mut bad, &mut total); }
    println!("BORACLE done, {} mismatching of {}", bad, total);
    let _ = std::fs::remove_dir_all(&dir);
}
