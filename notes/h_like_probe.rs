use std::collections::HashMap;
use std::panic::AssertUnwindSafe;
use futures::executor::block_on;
use locustdb::{LocustDB, Options};
use locustdb_serialization::event_buffer::{ColumnBuffer, ColumnData, EventBuffer, TableBuffer};

fn eb(table: &str, cols: Vec<(&str, ColumnData)>) -> EventBuffer {
    let mut m = HashMap::new();
    for (n, d) in cols { m.insert(n.to_string(), ColumnBuffer { data: d }); }
    let mut tables = HashMap::new();
    tables.insert(table.to_string(), TableBuffer::new(m));
    EventBuffer { tables }
}
fn q(db: &LocustDB, sql: &str) -> String {
    let r = std::panic::catch_unwind(AssertUnwindSafe(|| block_on(db.run_query(sql, false, true, vec![]))));
    match r {
        Ok(Ok(out)) => format!("OK rows={:?}", out.rows),
        Ok(Err(e)) => format!("ERR {:?}", e).chars().take(300).collect(),
        Err(_) => "PANIC-in-caller".to_string(),
    }
}
#[test]
fn like_patterns() {
    let db = LocustDB::new(&Options { threads: 2, read_threads: 1, metrics_table_name: None, ..Options::default() });
    let strs: Vec<String> = ["abcd", "abd", "a_cd", "abc", "_bc", "xbc", "aXbYc", "a%b%c", "abbc", "a.c", "abc%"].iter().map(|s| s.to_string()).collect();
    block_on(db.ingest_efficient(eb("t", vec![("s", ColumnData::String(strs))])));
    for p in ["a__d", "_bc", "a%b%c", "a_c", "%b%", "a.c", "abc\\%", "__c", "a%", "%"] {
        println!("LIKE {:8} {}", p, q(&db, &format!("SELECT s FROM t WHERE s LIKE '{}'", p)));
    }
}
