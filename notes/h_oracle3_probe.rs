use std::collections::{BTreeMap, HashMap};
use std::panic::AssertUnwindSafe;
use futures::executor::block_on;
use locustdb::{LocustDB, Options, Value};
use locustdb_serialization::event_buffer::{EventBuffer, TableBuffer};
use locustdb_serialization::api::AnyVal;

#[derive(Clone, Debug)]
struct Row { id: i64, g: i64, h: Option<i64>, s: String, x: i64, y: Option<i64> }
fn rows(n: i64) -> Vec<Row> {
    (0..n).map(|i| Row { id: i, g: (i * 7) % 3, h: if i % 4 == 1 { None } else { Some((i * 5) % 4 - 1) }, s: format!("k{}", (i * 3) % 4), x: (i * 37) % 50, y: if i % 3 == 0 { None } else { Some((i * 11) % 7 - 3) } }).collect()
}
fn build(dir: Option<std::path::PathBuf>, batch: usize, data: &[Row]) -> std::sync::Arc<LocustDB> {
    let db = std::sync::Arc::new(LocustDB::new(&Options { threads: 4, read_threads: 1, db_path: dir, metrics_table_name: None, partition_combine_factor: 999999, ..Options::default() }));
    for chunk in data.chunks(batch) {
        let mut tb = TableBuffer::default();
        for r in chunk {
            let mut v = vec![("id".to_string(), AnyVal::Int(r.id)), ("g".to_string(), AnyVal::Int(r.g)), ("s".to_string(), AnyVal::Str(r.s.clone())), ("x".to_string(), AnyVal::Int(r.x))];
            if let Some(h) = r.h { v.push(("h".to_string(), AnyVal::Int(h))); }
            if let Some(y) = r.y { v.push(("y".to_string(), AnyVal::Int(y))); }
            tb.push_row_and_timestamp(v);
        }
        let mut tables = HashMap::new();
        tables.insert("t".to_string(), tb);
        block_on(db.ingest_efficient(EventBuffer { tables }));
        db.force_flush();
    }
    db
}
fn q(db: &std::sync::Arc<LocustDB>, sql: &str) -> Result<Vec<Vec<Value>>, String> {
    let (tx, rx) = std::sync::mpsc::channel();
    let db2 = db.clone(); let sql2 = sql.to_string();
    std::thread::spawn(move || {
        let r = std::panic::catch_unwind(AssertUnwindSafe(|| block_on(db2.run_query(&sql2, false, true, vec![]))));
        let s = match r { Ok(Ok(out)) => Ok(out.rows.unwrap_or_default()), Ok(Err(e)) => Err(format!("ERR {:?}", e).chars().take(120).collect()), Err(_) => Err("PANIC-in-caller".to_string()) };
        let _ = tx.send(s);
    });
    rx.recv_timeout(std::time::Duration::from_secs(20)).unwrap_or_else(|_| Err("NO ANSWER within 20 s".to_string()))
}
fn key(r: &Row, k: &str) -> Value { match k { "g" => Value::Int(r.g), "h" => r.h.map(Value::Int).unwrap_or(Value::Null), "s" => Value::Str(r.s.clone()), _ => unreachable!() } }
#[test]
fn expr_oracle() {
    let data = rows(60);
    let dir = std::env::temp_dir().join(format!("vx_oracle3_{}", std::process::id()));
    let _ = std::fs::remove_dir_all(&dir);
    let dbs = vec![("one", build(None, 60, &data)), ("many", build(Some(dir.clone()), 7, &data))];
    let exprs: Vec<(&str, Box<dyn Fn(&Row) -> Option<i64>>)> = vec![
        ("x + y", Box::new(|r| r.y.map(|y| r.x + y))), ("x - h", Box::new(|r| r.h.map(|h| r.x - h))), ("y * h", Box::new(|r| match (r.y, r.h) { (Some(y), Some(h)) => Some(y * h), _ => None })),
        ("x * g", Box::new(|r| Some(r.x * r.g))), ("x / 7", Box::new(|r| Some(r.x / 7))), ("y / 2", Box::new(|r| r.y.map(|y| y / 2))), ("x % 7", Box::new(|r| Some(r.x % 7))), ("y % 3", Box::new(|r| r.y.map(|y| y % 3))),
        ("x + 9223372036854775000 - 9223372036854775000", Box::new(|r| Some(r.x))), ("(x + g) * (g + 1)", Box::new(|r| Some((r.x + r.g) * (r.g + 1)))), ("h + y + x", Box::new(|r| match (r.y, r.h) { (Some(y), Some(h)) => Some(h + y + r.x), _ => None })),
        ("x / (g + 1)", Box::new(|r| Some(r.x / (r.g + 1)))), ("y - y", Box::new(|r| r.y.map(|_| 0))), ("0 - y", Box::new(|r| r.y.map(|y| -y))),
    ];
    let mut bad = 0; let mut total = 0;
    for (txt, f) in exprs.iter() {
        let sql = format!("SELECT id, {} FROM t", txt);
        let mut want: Vec<Vec<Value>> = data.iter().map(|r| vec![Value::Int(r.id), f(r).map(Value::Int).unwrap_or(Value::Null)]).collect();
        want.sort();
        for (name, db) in &dbs {
            total += 1;
            match q(db, &sql) {
                Ok(mut got) => { got.sort(); if got != want { bad += 1; let k = got.iter().zip(want.iter()).position(|(g, w)| g != w).unwrap_or(0); println!("EORACLE DIFFERENT [{}] {}\n   got:  {:?}\n   want: {:?}", name, sql, &got[k..got.len().min(k + 4)], &want[k..want.len().min(k + 4)]); } }
                Err(e) => { bad += 1; println!("EORACLE {} [{}] {}", e, name, sql); }
            }
        }
        // the same expression as an aggregate argument and as a grouping key
        for sql2 in [format!("SELECT g, sum({}) FROM t", txt), format!("SELECT {}, count(1) FROM t", txt)] {
            let want2: Vec<Vec<Value>> = if sql2.starts_with("SELECT g") {
                let mut m: BTreeMap<i64, Option<i64>> = BTreeMap::new();
                for r in data.iter() { let e = m.entry(r.g).or_insert(None); if let Some(v) = f(r) { *e = Some(e.unwrap_or(0) + v); } }
                m.into_iter().map(|(g, s)| vec![Value::Int(g), s.map(Value::Int).unwrap_or(Value::Null)]).collect()
            } else {
                let mut m: BTreeMap<Value, i64> = BTreeMap::new();
                for r in data.iter() { *m.entry(f(r).map(Value::Int).unwrap_or(Value::Null)).or_insert(0) += 1; }
                let mut v: Vec<Vec<Value>> = m.into_iter().map(|(k, c)| vec![k, Value::Int(c)]).collect(); v.sort(); v
            };
            for (name, db) in &dbs {
                total += 1;
                match q(db, &sql2) {
                    Ok(mut got) => { got.sort(); let mut w = want2.clone(); w.sort(); if got != w { bad += 1; println!("EORACLE DIFFERENT [{}] {}\n   got:  {:?}\n   want: {:?}", name, sql2, &got[..got.len().min(8)], &w[..w.len().min(8)]); } }
                    Err(e) => { bad += 1; println!("EORACLE {} [{}] {}", e, name, sql2); }
                }
            }
        }
    }
    println!("EORACLE done, {} mismatching of {}", bad, total);
    let _ = std::fs::remove_dir_all(&dir);
}
