use std::collections::HashMap;
use std::panic::AssertUnwindSafe;
use futures::executor::block_on;
use locustdb::{LocustDB, Options, Value};
use locustdb_serialization::event_buffer::{EventBuffer, TableBuffer};
use locustdb_serialization::api::AnyVal;

fn q(db: &std::sync::Arc<LocustDB>, sql: &str) -> Result<Vec<Vec<Value>>, String> {
    let (tx, rx) = std::sync::mpsc::channel();
    let db2 = db.clone(); let sql2 = sql.to_string();
    std::thread::spawn(move || {
        let r = std::panic::catch_unwind(AssertUnwindSafe(|| block_on(db2.run_query(&sql2, false, true, vec![]))));
        let s = match r { Ok(Ok(out)) => Ok(out.rows.unwrap_or_default()), Ok(Err(e)) => Err(format!("ERR {:?}", e).chars().take(120).collect()), Err(_) => Err("PANIC-in-caller".to_string()) };
        let _ = tx.send(s);
    });
    rx.recv_timeout(std::time::Duration::from_secs(30)).unwrap_or_else(|_| Err("NO ANSWER within 30 s".to_string()))
}
fn open(dir: &std::path::Path, combine: u64) -> std::sync::Arc<LocustDB> {
    std::sync::Arc::new(LocustDB::new(&Options { threads: 4, read_threads: 1, db_path: Some(dir.to_path_buf()), metrics_table_name: None, partition_combine_factor: combine, max_wal_size_bytes: 2000, ..Options::default() }))
}
fn row(i: i64) -> Vec<(String, AnyVal)> {
    let mut r = vec![("id".to_string(), AnyVal::Int(i))];
    if i % 3 != 1 { r.push(("a".to_string(), AnyVal::Int(i * 1000003 % 50000 - 20000))); }
    if i % 4 != 2 { r.push(("f".to_string(), AnyVal::Float((i as f64) * 0.25 - 3.0))); }
    r.push(("s".to_string(), AnyVal::Str(if i % 5 == 0 { "".to_string() } else { format!("str{}", i % 11) })));
    if i >= 25 { r.push(("late".to_string(), AnyVal::Int(i - 25))); }
    if i % 7 == 0 { r.push(("rare".to_string(), AnyVal::Int(i))); }
    r
}
fn expect(i: i64, col: &str) -> Value {
    for (k, v) in row(i) { if k == col { return match v { AnyVal::Int(x) => Value::Int(x), AnyVal::Float(f) => Value::Float(ordered_float::OrderedFloat(f)), AnyVal::Str(s) => Value::Str(s), AnyVal::Null => Value::Null }; } }
    Value::Null
}
fn compare(tag: &str, db: &std::sync::Arc<LocustDB>, n: i64) {
    match q(db, "SELECT id, a, f, s, late, rare FROM t ORDER BY id") {
        Ok(got) => {
            let mut bad = None;
            if got.len() as i64 != n { bad = Some(format!("{} rows instead of {}", got.len(), n)); }
            for (k, r) in got.iter().enumerate() {
                let i = k as i64;
                for (c, col) in ["id", "a", "f", "s", "late", "rare"].iter().enumerate() {
                    if bad.is_none() && r[c] != expect(i, col) { bad = Some(format!("row {} column {}: got {:?} want {:?}", i, col, r[c], expect(i, col))); }
                }
            }
            println!("HIST {:34} {}", tag, bad.unwrap_or_else(|| "same".to_string()));
        }
        Err(e) => println!("HIST {:34} {}", tag, e),
    }
}
#[test]
fn many_files_per_partition() {
    let dir = std::env::temp_dir().join(format!("vx_route_{}", std::process::id()));
    let _ = std::fs::remove_dir_all(&dir);
    let names = ["a", "B", "c", "C", "ab", "aB", "a_b", "Z", "z", "A", "all", "\u{e9}", "a b", "0", "_", "zzzzzzzzzzzzzzzzzzzzzzzzzzzzzzzzzzzzzzzzzzzzzzzzzzzzzzzzzzzzzzzzzzzzzz"];
    let mk = |combine: u64| std::sync::Arc::new(LocustDB::new(&Options { threads: 4, read_threads: 1, db_path: Some(dir.to_path_buf()), metrics_table_name: None, partition_combine_factor: combine, max_wal_size_bytes: 2000, max_partition_size_bytes: 600, ..Options::default() }));
    let mut n = 0i64;
    for round in 0..3 {
        let db = mk(if round == 1 { 2 } else { 999999 });
        for _b in 0..3 {
            let mut tb = TableBuffer::default();
            for _ in 0..40 {
                let mut r = vec![("id".to_string(), AnyVal::Int(n))];
                for (k, c) in names.iter().enumerate() { r.push((c.to_string(), AnyVal::Int(n * 100 + k as i64))); }
                tb.push_row_and_timestamp(r); n += 1;
            }
            let mut tables = HashMap::new();
            tables.insert("t".to_string(), tb);
            block_on(db.ingest_efficient(EventBuffer { tables }));
            db.force_flush();
        }
        drop(db);
        let db = mk(999999);
        let mut bad = 0;
        for (k, c) in names.iter().enumerate() {
            let sql = format!("SELECT id, \"{}\" FROM t ORDER BY id", c);
            match q(&db, &sql) {
                Ok(got) => {
                    let mut first = None;
                    if got.len() as i64 != n { first = Some(format!("{} rows instead of {}", got.len(), n)); }
                    for (i, r) in got.iter().enumerate() { if first.is_none() && r[1] != Value::Int(i as i64 * 100 + k as i64) { first = Some(format!("row {}: got {:?}", i, r[1])); } }
                    if let Some(f) = first { bad += 1; println!("ROUTE round {} column {:?} {}", round, c, f); }
                }
                Err(e) => { bad += 1; println!("ROUTE round {} column {:?} {}", round, c, e) }
            }
        }
        let files = std::fs::read_dir(&dir).map(|d| d.count()).unwrap_or(0);
        println!("ROUTE round {} checked, {} columns differ, {} entries in db dir", round, bad, files);
        drop(db);
    }
    let _ = std::fs::remove_dir_all(&dir);
}
