use std::collections::{BTreeMap, HashMap};
use std::panic::AssertUnwindSafe;
use futures::executor::block_on;
use locustdb::{LocustDB, Options, Value};
use locustdb_serialization::event_buffer::{EventBuffer, TableBuffer};
use locustdb_serialization::api::AnyVal;

#[derive(Clone, Debug)]
struct Row { id: i64, g: i64, h: Option<i64>, s: String, x: i64, y: Option<i64> }
fn rows(n: i64) -> Vec<Row> {
    (0..n).map(|i| Row { id: i, g: (i * 7) % 3, h: if i % 4 == 1 { None } else { Some((i * 5) % 4 - 1) }, s: format!("k{}", (i * 3) % 4), x: (i * 37) % 50, y: if i % 3 == 0 { None } else { Some((i * 11) % 7 - 3) } }).collect()
}
fn build(dir: Option<std::path::PathBuf>, batch: usize, data: &[Row]) -> std::sync::Arc<LocustDB> {
    let db = std::sync::Arc::new(LocustDB::new(&Options { threads: 4, read_threads: 1, db_path: dir, metrics_table_name: None, partition_combine_factor: 999999, ..Options::default() }));
    for chunk in data.chunks(batch) {
        let mut tb = TableBuffer::default();
        for r in chunk {
            let mut v = vec![("id".to_string(), AnyVal::Int(r.id)), ("g".to_string(), AnyVal::Int(r.g)), ("s".to_string(), AnyVal::Str(r.s.clone())), ("x".to_string(), AnyVal::Int(r.x))];
            if let Some(h) = r.h { v.push(("h".to_string(), AnyVal::Int(h))); }
            if let Some(y) = r.y { v.push(("y".to_string(), AnyVal::Int(y))); }
            tb.push_row_and_timestamp(v);
        }
        let mut tables = HashMap::new();
        tables.insert("t".to_string(), tb);
        block_on(db.ingest_efficient(EventBuffer { tables }));
        db.force_flush();
    }
    db
}
fn q(db: &std::sync::Arc<LocustDB>, sql: &str) -> Result<Vec<Vec<Value>>, String> {
    let (tx, rx) = std::sync::mpsc::channel();
    let db2 = db.clone(); let sql2 = sql.to_string();
    std::thread::spawn(move || {
        let r = std::panic::catch_unwind(AssertUnwindSafe(|| block_on(db2.run_query(&sql2, false, true, vec![]))));
        let s = match r { Ok(Ok(out)) => Ok(out.rows.unwrap_or_default()), Ok(Err(e)) => Err(format!("ERR {:?}", e).chars().take(120).collect()), Err(_) => Err("PANIC-in-caller".to_string()) };
        let _ = tx.send(s);
    });
    rx.recv_timeout(std::time::Duration::from_secs(20)).unwrap_or_else(|_| Err("NO ANSWER within 20 s".to_string()))
}
fn key(r: &Row, k: &str) -> Value { match k { "g" => Value::Int(r.g), "h" => r.h.map(Value::Int).unwrap_or(Value::Null), "s" => Value::Str(r.s.clone()), _ => unreachable!() } }
#[test]
fn group_by_oracle() {
    let data = rows(60);
    let dir = std::env::temp_dir().join(format!("vx_oracle_{}", std::process::id()));
    let _ = std::fs::remove_dir_all(&dir);
    let dbs = vec![("one", build(None, 60, &data)), ("many", build(Some(dir.clone()), 7, &data))];
    {
        println!("SHOW-BEGIN");
        let _ = block_on(dbs[1].1.run_query("SELECT h, count(1) FROM t WHERE x > 15", false, true, vec![5, 6]));
        println!("SHOW-END");
    }
    for sql in ["SELECT h, count(1) FROM t WHERE x > 15", "SELECT h, count(1) FROM t", "SELECT g, h, count(1) FROM t", "SELECT h, g, count(1) FROM t"] {
        println!("RAW many {:45} {:?}", sql, q(&dbs[1].1, sql));
    }
    for lo in [0, 7, 14, 21, 28, 35, 42, 49, 56] {
        println!("RAW part id>={:2} {:?}", lo, q(&dbs[1].1, &format!("SELECT h, count(1) FROM t WHERE x > 15 AND id >= {} AND id < {}", lo, lo + 7)));
    }
    let keysets: Vec<Vec<&str>> = vec![vec!["g"], vec!["h"], vec!["s"], vec!["g", "h"], vec!["h", "g"], vec!["g", "s"], vec!["s", "h"], vec!["g", "h", "s"], vec!["s", "g", "h"]];
    let filters: Vec<(&str, Box<dyn Fn(&Row) -> bool>)> = vec![
        ("", Box::new(|_| true)), ("WHERE x > 15", Box::new(|r| r.x > 15)), ("WHERE g = 1 OR x < 30", Box::new(|r| r.g == 1 || r.x < 30)),
        ("WHERE h IS NULL", Box::new(|r| r.h.is_none())), ("WHERE y > 0", Box::new(|r| r.y.map_or(false, |y| y > 0))), ("WHERE s = 'k2'", Box::new(|r| r.s == "k2")), ("WHERE h < 2", Box::new(|r| r.h.map_or(false, |h| h < 2))),
    ];
    let mut bad = 0;
    for ks in &keysets { for (ftxt, f) in &filters {
        let sql = format!("SELECT {}, count(1), sum(x), min(x), max(x), count(y), sum(y) FROM t {}", ks.join(", "), ftxt);
        let mut exp: BTreeMap<Vec<Value>, (i64, i64, i64, i64, i64, Option<i64>)> = BTreeMap::new();
        for r in data.iter().filter(|r| f(r)) {
            let k: Vec<Value> = ks.iter().map(|k| key(r, k)).collect();
            let e = exp.entry(k).or_insert((0, 0, i64::MAX, i64::MIN, 0, None));
            e.0 += 1; e.1 += r.x; e.2 = e.2.min(r.x); e.3 = e.3.max(r.x);
            if let Some(y) = r.y { e.4 += 1; e.5 = Some(e.5.unwrap_or(0) + y); }
        }
        let mut want: Vec<Vec<Value>> = exp.into_iter().map(|(k, e)| { let mut v = k; v.extend([Value::Int(e.0), Value::Int(e.1), Value::Int(e.2), Value::Int(e.3), if e.4 == 0 { Value::Null } else { Value::Int(e.4) }, e.5.map(Value::Int).unwrap_or(Value::Null)]); v }).collect();
        want.sort();
        for (name, db) in &dbs {
            match q(db, &sql) {
                Ok(mut got) => { got.sort(); if got != want { bad += 1; println!("ORACLE DIFFERENT [{}] {}\n   got:  {:?}\n   want: {:?}", name, sql, &got[..got.len().min(6)], &want[..want.len().min(6)]); } }
                Err(e) => { bad += 1; println!("ORACLE {} [{}] {}", e, name, sql); }
            }
        }
    } }
    println!("ORACLE done, {} mismatching (query, db) pairs of {}", bad, keysets.len() * filters.len() * 2);
    let _ = std::fs::remove_dir_all(&dir);
}
