use std::collections::{BTreeMap, HashMap};
use std::panic::AssertUnwindSafe;
use futures::executor::block_on;
use locustdb::{LocustDB, Options, Value};
use locustdb_serialization::event_buffer::{EventBuffer, TableBuffer};
use locustdb_serialization::api::AnyVal;

#[derive(Clone, Debug)]
struct Row { id: i64, g: i64, h: Option<i64>, s: String, x: i64, y: Option<i64> }
fn rows(n: i64) -> Vec<Row> {
    (0..n).map(|i| Row { id: i, g: (i * 7) % 3, h: if i % 4 == 1 { None } else { Some((i * 5) % 4 - 1) }, s: format!("k{}", (i * 3) % 4), x: (i * 37) % 50, y: if i % 3 == 0 { None } else { Some((i * 11) % 7 - 3) } }).collect()
}
fn build(dir: Option<std::path::PathBuf>, batch: usize, data: &[Row]) -> std::sync::Arc<LocustDB> {
    let db = std::sync::Arc::new(LocustDB::new(&Options { threads: 4, read_threads: 1, db_path: dir, metrics_table_name: None, partition_combine_factor: 999999, ..Options::default() }));
    for chunk in data.chunks(batch) {
        let mut tb = TableBuffer::default();
        for r in chunk {
            let mut v = vec![("id".to_string(), AnyVal::Int(r.id)), ("g".to_string(), AnyVal::Int(r.g)), ("s".to_string(), AnyVal::Str(r.s.clone())), ("x".to_string(), AnyVal::Int(r.x))];
            if let Some(h) = r.h { v.push(("h".to_string(), AnyVal::Int(h))); }
            if let Some(y) = r.y { v.push(("y".to_string(), AnyVal::Int(y))); }
            tb.push_row_and_timestamp(v);
        }
        let mut tables = HashMap::new();
        tables.insert("t".to_string(), tb);
        block_on(db.ingest_efficient(EventBuffer { tables }));
        db.force_flush();
    }
    db
}
fn q(db: &std::sync::Arc<LocustDB>, sql: &str) -> Result<Vec<Vec<Value>>, String> {
    let (tx, rx) = std::sync::mpsc::channel();
    let db2 = db.clone(); let sql2 = sql.to_string();
    std::thread::spawn(move || {
        let r = std::panic::catch_unwind(AssertUnwindSafe(|| block_on(db2.run_query(&sql2, false, true, vec![]))));
        let s = match r { Ok(Ok(out)) => Ok(out.rows.unwrap_or_default()), Ok(Err(e)) => Err(format!("ERR {:?}", e).chars().take(120).collect()), Err(_) => Err("PANIC-in-caller".to_string()) };
        let _ = tx.send(s);
    });
    rx.recv_timeout(std::time::Duration::from_secs(20)).unwrap_or_else(|_| Err("NO ANSWER within 20 s".to_string()))
}
fn key(r: &Row, k: &str) -> Value { match k { "g" => Value::Int(r.g), "h" => r.h.map(Value::Int).unwrap_or(Value::Null), "s" => Value::Str(r.s.clone()), _ => unreachable!() } }
#[test]
fn where_order_oracle() {
    let data = rows(60);
    let dir = std::env::temp_dir().join(format!("vx_oracle2_{}", std::process::id()));
    let _ = std::fs::remove_dir_all(&dir);
    let dbs = vec![("one", build(None, 60, &data)), ("many", build(Some(dir.clone()), 7, &data))];
    let n3 = |a: Option<bool>, b: Option<bool>| -> Option<bool> { match (a, b) { (Some(false), _) | (_, Some(false)) => Some(false), (Some(true), Some(true)) => Some(true), _ => None } }; // AND
    let o3 = |a: Option<bool>, b: Option<bool>| -> Option<bool> { match (a, b) { (Some(true), _) | (_, Some(true)) => Some(true), (Some(false), Some(false)) => Some(false), _ => None } }; // OR
    let preds: Vec<(&str, Box<dyn Fn(&Row) -> Option<bool>>)> = vec![
        ("x > 15", Box::new(|r| Some(r.x > 15))), ("x >= 49", Box::new(|r| Some(r.x >= 49))), ("x > 49", Box::new(|r| Some(r.x > 49))), ("x < 0", Box::new(|r| Some(r.x < 0))), ("x <> 7", Box::new(|r| Some(r.x != 7))),
        ("x > -9223372036854775807", Box::new(|_| Some(true))), ("x < 300", Box::new(|_| Some(true))), ("x = 1000000", Box::new(|_| Some(false))),
        ("h = 1", Box::new(|r| r.h.map(|h| h == 1))), ("h <> 1", Box::new(|r| r.h.map(|h| h != 1))), ("h < 0", Box::new(|r| r.h.map(|h| h < 0))), ("h >= -1", Box::new(|r| r.h.map(|h| h >= -1))), ("h > 100", Box::new(|r| r.h.map(|_| false))),
        ("h IS NULL", Box::new(|r| Some(r.h.is_none()))), ("h IS NOT NULL", Box::new(|r| Some(r.h.is_some()))), ("y > h", Box::new(|r| match (r.y, r.h) { (Some(y), Some(h)) => Some(y > h), _ => None })),
        ("y = h", Box::new(|r| match (r.y, r.h) { (Some(y), Some(h)) => Some(y == h), _ => None })), ("x > g", Box::new(|r| Some(r.x > r.g))), ("h < x", Box::new(|r| r.h.map(|h| h < r.x))),
        ("s = 'k1'", Box::new(|r| Some(r.s == "k1"))), ("s <> 'k1'", Box::new(|r| Some(r.s != "k1"))), ("s = 'zz'", Box::new(|r| Some(r.s == "zz"))), ("s < 'k2'", Box::new(|r| Some(r.s.as_str() < "k2"))), ("s >= 'k15'", Box::new(|r| Some(r.s.as_str() >= "k15"))), ("s > 'a'", Box::new(|_| Some(true))),
        ("s LIKE 'k_'", Box::new(|_| Some(true))), ("s LIKE '%3'", Box::new(|r| Some(r.s.ends_with('3')))), ("s LIKE '_'", Box::new(|_| Some(false))),
    ];
    let mut bad = 0; let mut total = 0;
    let mut combos: Vec<(String, Box<dyn Fn(&Row) -> Option<bool> + '_>)> = vec![];
    for (t, f) in preds.iter() { combos.push((t.to_string(), Box::new(move |r| f(r)))); }
    for i in [0usize, 8, 9, 13, 15, 19] { for j in [3usize, 10, 12, 14, 16, 22] {
        let (ti, fi) = (&preds[i].0, &preds[i].1); let (tj, fj) = (&preds[j].0, &preds[j].1);
        combos.push((format!("{} AND {}", ti, tj), Box::new(move |r| n3(fi(r), fj(r)))));
        combos.push((format!("{} OR {}", ti, tj), Box::new(move |r| o3(fi(r), fj(r)))));
        combos.push((format!("({} OR {}) AND x > 10", ti, tj), Box::new(move |r| n3(o3(fi(r), fj(r)), Some(r.x > 10)))));
    } }
    for (txt, f) in combos.iter() {
        let sql = format!("SELECT id FROM t WHERE {}", txt);
        let mut want: Vec<Vec<Value>> = data.iter().filter(|r| f(r) == Some(true)).map(|r| vec![Value::Int(r.id)]).collect();
        want.sort();
        for (name, db) in &dbs {
            total += 1;
            match q(db, &sql) {
                Ok(mut got) => { got.sort(); if got != want { bad += 1; println!("WORACLE DIFFERENT [{}] {}\n   got:  {:?}\n   want: {:?}", name, sql, &got[..got.len().min(12)], &want[..want.len().min(12)]); } }
                Err(e) => { bad += 1; println!("WORACLE {} [{}] {}", e, name, sql); }
            }
        }
    }
    // ORDER BY with LIMIT / OFFSET against a reference sort (NULLs last ascending, first descending; ties broken by id)
    let keyfns: Vec<(&str, Box<dyn Fn(&Row) -> (bool, i64)>)> = vec![("x", Box::new(|r| (false, r.x))), ("h", Box::new(|r| (r.h.is_none(), r.h.unwrap_or(0)))), ("y", Box::new(|r| (r.y.is_none(), r.y.unwrap_or(0)))), ("g", Box::new(|r| (false, r.g)))];
    for (k, kf) in keyfns.iter() { for desc in [false, true] { for (limit, offset) in [(0, 0), (1, 0), (5, 0), (5, 3), (29, 0), (30, 0), (31, 2), (100, 0), (10, 55), (3, 70)] { for filt in ["", "WHERE x > 15"] {
        let sql = format!("SELECT id FROM t {} ORDER BY {}{}, id LIMIT {} OFFSET {}", filt, k, if desc { " DESC" } else { "" }, limit, offset);
        let mut rs: Vec<&Row> = data.iter().filter(|r| filt.is_empty() || r.x > 15).collect();
        rs.sort_by(|a, b| { let (na, va) = kf(a); let (nb, vb) = kf(b); let o = if desc { (!na, std::cmp::Reverse(va)).cmp(&(!nb, std::cmp::Reverse(vb))) } else { (na, va).cmp(&(nb, vb)) }; o.then(a.id.cmp(&b.id)) });
        let want: Vec<Vec<Value>> = rs.iter().skip(offset).take(limit).map(|r| vec![Value::Int(r.id)]).collect();
        for (name, db) in &dbs {
            total += 1;
            match q(db, &sql) {
                Ok(got) => { if got != want { bad += 1; println!("WORACLE DIFFERENT [{}] {}\n   got:  {:?}\n   want: {:?}", name, sql, &got[..got.len().min(12)], &want[..want.len().min(12)]); } }
                Err(e) => { bad += 1; println!("WORACLE {} [{}] {}", e, name, sql); }
            }
        }
    } } } }
    println!("WORACLE done, {} mismatching of {}", bad, total);
    let _ = std::fs::remove_dir_all(&dir);
}
