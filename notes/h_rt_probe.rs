use std::collections::HashMap;
use std::panic::AssertUnwindSafe;
use futures::executor::block_on;
use locustdb::{LocustDB, Options};
use locustdb_serialization::event_buffer::{ColumnBuffer, ColumnData, EventBuffer, TableBuffer};

fn eb(table: &str, cols: Vec<(&str, ColumnData)>) -> EventBuffer {
    let mut m = HashMap::new();
    for (n, d) in cols { m.insert(n.to_string(), ColumnBuffer { data: d }); }
    let mut tables = HashMap::new();
    tables.insert(table.to_string(), TableBuffer::new(m));
    EventBuffer { tables }
}
fn strs(db: &std::sync::Arc<LocustDB>, sql: &str) -> Result<Vec<String>, String> {
    let (tx, rx) = std::sync::mpsc::channel();
    let db2 = db.clone(); let sql2 = sql.to_string();
    std::thread::spawn(move || {
        let r = std::panic::catch_unwind(AssertUnwindSafe(|| block_on(db2.run_query(&sql2, false, true, vec![]))));
        let s = match r {
            Ok(Ok(out)) => Ok(out.rows.unwrap_or_default().iter().map(|r| format!("{:?}", r[1])).collect::<Vec<_>>()),
            Ok(Err(e)) => Err(format!("ERR {:?}", e).chars().take(160).collect()),
            Err(_) => Err("PANIC-in-caller".to_string()),
        };
        let _ = tx.send(s);
    });
    rx.recv_timeout(std::time::Duration::from_secs(60)).unwrap_or_else(|_| Err("NO ANSWER within 60 s".to_string()))
}
fn check(name: &str, vals: Vec<String>, flush: bool) {
    let dir = std::env::temp_dir().join(format!("vx_rt_{}_{}", std::process::id(), name));
    let _ = std::fs::remove_dir_all(&dir);
    let db = std::sync::Arc::new(LocustDB::new(&Options { threads: 2, read_threads: 1, db_path: if flush { Some(dir.clone()) } else { None }, metrics_table_name: None, ..Options::default() }));
    let n = vals.len();
    block_on(db.ingest_efficient(eb("t", vec![("id", ColumnData::I64((0..n as i64).collect())), ("s", ColumnData::String(vals.clone()))])));
    if flush { db.force_flush(); }
    match strs(&db, "SELECT id, s FROM t ORDER BY id") {
        Ok(got) => {
            let want: Vec<String> = vals.iter().map(|v| format!("Str({:?})", v)).collect();
            let bad = got.iter().zip(want.iter()).position(|(g, w)| g != w);
            println!("RT {:22} flush={} rows={} {}", name, flush, got.len(), match bad { None if got.len() == n => "same".to_string(), None => "ROW COUNT DIFFERS".to_string(), Some(k) => format!("DIFFERENT at row {}: got {} want {}", k, got[k].chars().take(60).collect::<String>(), want[k].chars().take(60).collect::<String>()) });
        }
        Err(e) => println!("RT {:22} flush={} {}", name, flush, e),
    }
    let _ = std::fs::remove_dir_all(&dir);
}
#[test]
fn string_roundtrips() {
    for flush in [false, true] {
        check("dict_small", (0..40).map(|i| format!("v{}", i % 3)).collect(), flush);
        check("packed_unique", (0..40).map(|i| format!("unique-{}-{}", i, "x".repeat(i))).collect(), flush);
        check("packed_len_254_255_256", (0..12).map(|i| "y".repeat(250 + i) + &i.to_string()).collect(), flush);
        check("packed_len_510_511", (0..12).map(|i| "z".repeat(505 + i) + &i.to_string()).collect(), flush);
        check("hex_lower", (0..40).map(|i| format!("{:032x}", (i as u128 + 1) * 0x9e3779b97f4a7c15u128)).collect(), flush);
        check("hex_upper", (0..40).map(|i| format!("{:032X}", (i as u128 + 1) * 0x9e3779b97f4a7c15u128)).collect(), flush);
        check("hex_mixed_case", (0..40).map(|i| if i % 2 == 0 { format!("{:032x}", (i as u128 + 1) * 0x9e3779b97f4a7c15u128) } else { format!("{:032X}", (i as u128 + 1) * 0x9e3779b97f4a7c15u128) }).collect(), flush);
        check("hex_odd_length", (0..40).map(|i| format!("{:031x}", (i as u128 + 1) * 0x9e3779b97f4a7cu128)).collect(), flush);
        check("empty_and_unicode", (0..40).map(|i| match i % 4 { 0 => "".to_string(), 1 => "é".to_string(), 2 => "日本語".to_string(), _ => format!("\u{0}nul{}", i) }).collect(), flush);
        check("dict_256_values", (0..600).map(|i| format!("d{}", i % 256)).collect(), flush);
        check("dict_257_values", (0..600).map(|i| format!("d{}", i % 257)).collect(), flush);
    }
}
