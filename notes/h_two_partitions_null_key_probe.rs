use std::collections::HashMap;
use futures::executor::block_on;
use locustdb::{LocustDB, Options};
use locustdb_serialization::event_buffer::{EventBuffer, TableBuffer};
use locustdb_serialization::api::AnyVal;
fn part(db: &LocustDB, hs: Vec<Option<i64>>) {
    let mut tb = TableBuffer::default();
    for (i, h) in hs.into_iter().enumerate() {
        let mut v = vec![("x".to_string(), AnyVal::Int(20 + i as i64))];
        if let Some(h) = h { v.push(("h".to_string(), AnyVal::Int(h))); }
        tb.push_row_and_timestamp(v);
    }
    let mut tables = HashMap::new();
    tables.insert("t".to_string(), tb);
    block_on(db.ingest_efficient(EventBuffer { tables }));
    db.force_flush();
}
#[test]
fn two_partitions() {
    let dir = std::env::temp_dir().join(format!("vx_two_{}", std::process::id()));
    let _ = std::fs::remove_dir_all(&dir);
    let db = LocustDB::new(&Options { threads: 1, read_threads: 1, db_path: Some(dir.clone()), metrics_table_name: None, partition_combine_factor: 999999, ..Options::default() });
    part(&db, vec![None, Some(-1), Some(1), Some(-1)]);
    part(&db, vec![Some(-1), Some(1), Some(2)]);
    for sql in ["SELECT h, count(1) FROM t", "SELECT h, count(1) FROM t WHERE x > 15", "SELECT h, count(1) FROM t WHERE x > 20"] {
        let r = block_on(db.run_query(sql, false, true, vec![])).unwrap();
        println!("TWO {:45} {:?}", sql, r.rows);
    }
    println!("SHOW-BEGIN");
    let _ = block_on(db.run_query("SELECT h, count(1) FROM t WHERE x > 15", false, true, vec![0, 1]));
    println!("SHOW-END");
    let _ = std::fs::remove_dir_all(&dir);
}
