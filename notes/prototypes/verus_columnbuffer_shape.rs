use vstd::prelude::*;
verus! {

pub struct IntColBuffer {
    pub data: Vec<i64>,
    pub min: i64,
    pub max: i64,
    pub increasing: u64,
    pub allow_delta_encode: bool,
    pub last: i64,
}

pub struct FloatColBuffer { pub data: Vec<u64> }

pub enum TypedBuffer {
    Empty,
    Int(IntColBuffer),
    Float(FloatColBuffer),
}

pub struct ColumnBuffer {
    pub buffer: TypedBuffer,
    pub length: usize,
    pub present: Option<Vec<u8>>,
}

impl IntColBuffer {
    fn push(&mut self, elem: i64) {
        self.min = if elem < self.min { elem } else { self.min };
        self.max = if elem > self.max { elem } else { self.max };
        if elem > self.last {
            self.increasing += 1;
        } else if elem.checked_sub(self.last).is_none() {
            self.allow_delta_encode = false;
        };
        self.last = elem;
        self.data.push(elem);
    }
}

impl ColumnBuffer {
    pub fn len(&self) -> usize { self.length }

    pub fn push_nulls(&mut self, count: usize) {
        match &mut self.buffer {
            TypedBuffer::Empty => {}
            buffer => {
                match buffer {
                    TypedBuffer::Int(buffer) => {
                        for _ in 0..count {
                            buffer.push(0);
                        }
                    }
                    TypedBuffer::Float(buffer) => {
                        for _ in 0..count {
                            buffer.data.push(0);
                        }
                    }
                    TypedBuffer::Empty => {}
                }
            }
        }
        self.length += count;
    }
}

} // verus!
fn main() {}
