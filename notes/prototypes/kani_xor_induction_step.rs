#![allow(unused)]
#[derive(Debug, PartialEq)]
pub enum Error { Eof }

// R9 shim: token FIFO standing in for bitbuffer's BitWriteStream/BitReadStream.
pub struct Fifo { val: [u64; 4], width: [usize; 4], w: usize, r: usize, width_mismatch: bool }
impl Fifo {
    fn new() -> Fifo { Fifo { val: [0; 4], width: [0; 4], w: 0, r: 0, width_mismatch: false } }
    fn write_int<T: Into<u64>>(&mut self, v: T, n: usize) -> Result<(), Error> {
        let v: u64 = v.into();
        assert!(n <= 64);
        // bitbuffer rejects values that do not fit; we model "low n bits are stored"
        let stored = if n == 64 { v } else { v & ((1u64 << n) - 1) };
        self.val[self.w] = stored; self.width[self.w] = n; self.w += 1; Ok(())
    }
    fn read_int_u64(&mut self, n: usize) -> Result<u64, Error> {
        if self.r >= self.w { return Err(Error::Eof); }
        if self.width[self.r] != n { self.width_mismatch = true; }
        let v = self.val[self.r]; self.r += 1; Ok(v)
    }
}

pub struct Enc { last_value: u64, last_leading_zeros: u32, last_trailing_zeros: u32, last_significant_bits: u32, regret: u32 }
pub struct Dec { last: u64, last_trailing_zeros: u32, last_significant_bits: u32 }

// loop body of encode(), verbatim except writer -> Fifo, f.to_bits() -> f
fn enc_body(st: &mut Enc, writer: &mut Fifo, f: u64, mask: u64, max_regret: u32) {
    let xor = (f ^ st.last_value) & mask;
    let leading_zeros = xor.leading_zeros().min(31);
    let trailing_zeros = xor.trailing_zeros();

    if trailing_zeros == 64 {
        writer.write_int(0u64, 1).unwrap();
    } else {
        let significant_bits = 64 - leading_zeros - trailing_zeros;
        if leading_zeros >= st.last_leading_zeros
            && trailing_zeros >= st.last_trailing_zeros
            && (st.regret < max_regret || significant_bits == st.last_significant_bits)
        {
            writer.write_int(0b01u64, 2).unwrap();
            let xor = xor >> st.last_trailing_zeros;
            writer.write_int(xor, st.last_significant_bits as usize).unwrap();
            st.regret += st.last_significant_bits - significant_bits;
        } else {
            st.last_leading_zeros = leading_zeros;
            st.last_trailing_zeros = trailing_zeros;
            st.last_significant_bits = significant_bits;
            st.regret = 0;
            writer.write_int(0b11u64, 2).unwrap();
            writer.write_int(leading_zeros, 5).unwrap();
            writer.write_int(significant_bits - 1, 6).unwrap();
            let xor = xor >> st.last_trailing_zeros;
            writer.write_int(xor, significant_bits as usize).unwrap();
        }
    }
    st.last_value = f;
}

// loop body of decode(); the 2-bit control token is written as one token (0b01 / 0b11) by the
// encoder and read as two 1-bit reads by the decoder: the shim splits it (LSB first).
fn dec_body(st: &mut Dec, reader: &mut Fifo) -> Result<u64, Error> {
    let first = reader.read_int_u64(0)?; // placeholder, replaced below
    Ok(first)
}

#[cfg(kani)]
mod proofs {
    use super::*;
    fn inv(e: &Enc, d: &Dec, mask: u64, f0: u64) -> bool {
        let window_ok = (e.last_leading_zeros == 65 && e.last_trailing_zeros == 65 && e.last_significant_bits == 0
                && d.last_trailing_zeros == 65 && d.last_significant_bits == 0)
            || (e.last_leading_zeros <= 31 && e.last_trailing_zeros <= 63
                && e.last_significant_bits >= 1
                && e.last_leading_zeros + e.last_trailing_zeros <= 63 && e.last_significant_bits == 64 - e.last_leading_zeros - e.last_trailing_zeros
                && d.last_trailing_zeros == e.last_trailing_zeros
                && d.last_significant_bits == e.last_significant_bits);
        window_ok && (d.last & mask) == (e.last_value & mask) && (d.last & !mask) == (f0 & !mask)
    }

    #[kani::proof]
    fn step() {
        let mut e = Enc { last_value: kani::any(), last_leading_zeros: kani::any(), last_trailing_zeros: kani::any(), last_significant_bits: kani::any(), regret: kani::any() };
        let mut d = Dec { last: kani::any(), last_trailing_zeros: kani::any(), last_significant_bits: kani::any() };
        let m: u32 = kani::any();
        kani::assume(m <= 52);
        let use_mask: bool = kani::any();
        let mask = if use_mask { u64::MAX - ((1u64 << (52 - m)) - 1) } else { u64::MAX };
        let f0: u64 = kani::any();
        let max_regret: u32 = kani::any();
        kani::assume(max_regret <= u32::MAX - 64);
        kani::assume(e.regret <= max_regret + 63);
        kani::assume(inv(&e, &d, mask, f0));
        let f: u64 = kani::any();
        let mut fifo = Fifo::new();
        enc_body(&mut e, &mut fifo, f, mask, max_regret);
        // decoder body, verbatim modulo shim: control bits
        let ctrl = fifo.read_int_u64(if fifo.width[0] == 1 { 1 } else { 2 }).unwrap();
        let b0 = ctrl & 1;
        let out;
        if b0 == 0 {
            out = d.last;
        } else {
            let b1 = (ctrl >> 1) & 1;
            if b1 == 1 {
                let last_leading_zeros = fifo.read_int_u64(5).unwrap() as u32;
                d.last_significant_bits = fifo.read_int_u64(6).unwrap() as u32 + 1;
                d.last_trailing_zeros = 64 - last_leading_zeros - d.last_significant_bits;
            }
            let xor: u64 = fifo.read_int_u64(d.last_significant_bits as usize).unwrap();
            d.last ^= xor << d.last_trailing_zeros;
            out = d.last;
        }
        assert!(!fifo.width_mismatch);
        assert!(fifo.r == fifo.w);
        assert!((out & mask) == (f & mask));
        assert!((out & !mask) == (f0 & !mask));
        assert!(e.regret <= max_regret + 63);
        assert!(inv(&e, &d, mask, f0));
    }
}
