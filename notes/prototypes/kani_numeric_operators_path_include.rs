#![allow(dead_code, unused_imports)]
pub mod operators {
    pub mod binary_operator {
        pub trait BinaryOp<LHS, RHS, Out> {
            fn perform(lhs: LHS, rhs: RHS) -> Out;
            fn symbol() -> &'static str;
        }
        pub trait CheckedBinaryOp<LHS, RHS, Out>: BinaryOp<LHS, RHS, Out> {
            fn perform_checked(lhs: LHS, rhs: RHS) -> (Out, bool);
        }
    }
    #[path = "/repo/src/engine/operators/numeric_operators.rs"]
    pub mod numeric_operators;
}

#[cfg(kani)]
mod proofs {
    use super::operators::binary_operator::*;
    use super::operators::numeric_operators::*;

    fn exact(op: u8, l: i64, r: i64) -> Option<i128> {
        let (l, r) = (l as i128, r as i128);
        match op {
            0 => Some(l + r),
            1 => Some(l - r),
            2 => Some(l * r),
            3 => if r == 0 { None } else { Some(l / r) },
            _ => if r == 0 { None } else { Some(l % r) },
        }
    }

    #[kani::proof]
    fn add_i64_i64() {
        let l: i64 = kani::any();
        let r: i64 = kani::any();
        let (v, of) = <Addition<i64, i64> as CheckedBinaryOp<i64, i64, i64>>::perform_checked(l, r);
        let e = exact(0, l, r).unwrap();
        if e >= i64::MIN as i128 && e <= i64::MAX as i128 { assert!(!of && v as i128 == e); } else { assert!(of); }
    }

    #[kani::proof]
    fn mod_i64_i64() {
        let l: i64 = kani::any();
        let r: i64 = kani::any();
        let (v, of) = <Modulo<i64, i64> as CheckedBinaryOp<i64, i64, i64>>::perform_checked(l, r);
        if r == 0 { assert!(of) } else { assert!(of || v == l.wrapping_rem(r)) }
    }

    #[kani::proof]
    fn mul_u8_i64() {
        let l: u8 = kani::any();
        let r: i64 = kani::any();
        let (v, of) = <Multiplication<u8, i64, i64> as CheckedBinaryOp<u8, i64, i64>>::perform_checked(l, r);
        let e = exact(2, l as i64, r).unwrap();
        if e >= i64::MIN as i128 && e <= i64::MAX as i128 { assert!(!of && v as i128 == e); } else { assert!(of); }
    }
}
