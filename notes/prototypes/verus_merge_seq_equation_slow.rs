use vstd::prelude::*;
verus! {

pub trait Comparator<T> {
    spec fn le(l: T, r: T) -> bool;
    fn cmp_eq(left: T, right: T) -> (b: bool)
        ensures b == Self::le(left, right);
}

fn vx_min(a: usize, b: usize) -> (r: usize) ensures r == if a <= b { a } else { b } { if a <= b { a } else { b } }

// left-biased merge of two sequences, as a mathematical function
pub open spec fn spec_merge<T, C: Comparator<T>>(l: Seq<T>, r: Seq<T>) -> Seq<T>
    decreases l.len() + r.len()
{
    if l.len() == 0 { r }
    else if r.len() == 0 { l }
    else if C::le(l[0], r[0]) { seq![l[0]] + spec_merge::<T, C>(l.skip(1), r) }
    else { seq![r[0]] + spec_merge::<T, C>(l, r.skip(1)) }
}

pub open spec fn spec_ops<T, C: Comparator<T>>(l: Seq<T>, r: Seq<T>) -> Seq<u8>
    decreases l.len() + r.len()
{
    if l.len() == 0 { Seq::new(r.len(), |i: int| 0u8) }
    else if r.len() == 0 { Seq::new(l.len(), |i: int| 1u8) }
    else if C::le(l[0], r[0]) { seq![1u8] + spec_ops::<T, C>(l.skip(1), r) }
    else { seq![0u8] + spec_ops::<T, C>(l, r.skip(1)) }
}

proof fn lemma_len<T, C: Comparator<T>>(l: Seq<T>, r: Seq<T>)
    ensures spec_merge::<T, C>(l, r).len() == l.len() + r.len(),
            spec_ops::<T, C>(l, r).len() == l.len() + r.len(),
    decreases l.len() + r.len()
{
    if l.len() == 0 {} else if r.len() == 0 {}
    else if C::le(l[0], r[0]) { lemma_len::<T, C>(l.skip(1), r); }
    else { lemma_len::<T, C>(l, r.skip(1)); }
}

fn merge<T: Copy, C: Comparator<T>>(
    left: &[T],
    right: &[T],
    limit: usize,
) -> (res: (Vec<T>, Vec<u8>))
    requires left.len() + right.len() <= usize::MAX,
    ensures
        res.0@ == spec_merge::<T, C>(left@, right@).take(vx_min_spec((left.len() + right.len()) as usize, limit) as int),
        res.1@ == spec_ops::<T, C>(left@, right@).take(vx_min_spec((left.len() + right.len()) as usize, limit) as int),
{
    let len = vx_min(left.len() + right.len(), limit);
    let mut result = Vec::with_capacity(len);
    let mut ops = Vec::<u8>::with_capacity(len);

    let mut i = 0;
    let mut j = 0;
    proof { lemma_len::<T, C>(left@, right@); }
    while i < left.len() && j < right.len() && i + j < limit
        invariant
            i <= left.len(), j <= right.len(), i + j <= limit,
            result@.len() == i + j, ops@.len() == i + j,
            result@ + spec_merge::<T, C>(left@.skip(i as int), right@.skip(j as int)) == spec_merge::<T, C>(left@, right@),
            ops@ + spec_ops::<T, C>(left@.skip(i as int), right@.skip(j as int)) == spec_ops::<T, C>(left@, right@),
        decreases left.len() - i + right.len() - j
    {
        let ghost ls = left@.skip(i as int);
        let ghost rs = right@.skip(j as int);
        assert(ls[0] == left@[i as int] && rs[0] == right@[j as int]);
        assert(ls.skip(1) == left@.skip(i + 1));
        assert(rs.skip(1) == right@.skip(j + 1));
        if C::cmp_eq(left[i], right[j]) {
            assert(spec_merge::<T, C>(ls, rs) == seq![ls[0]] + spec_merge::<T, C>(ls.skip(1), rs));
            assert(result@.push(left@[i as int]) + spec_merge::<T, C>(ls.skip(1), rs) == result@ + (seq![ls[0]] + spec_merge::<T, C>(ls.skip(1), rs)));
            assert(ops@.push(1u8) + spec_ops::<T, C>(ls.skip(1), rs) == ops@ + (seq![1u8] + spec_ops::<T, C>(ls.skip(1), rs)));
            result.push(left[i]);
            ops.push(1);
            i += 1;
        } else {
            assert(spec_merge::<T, C>(ls, rs) == seq![rs[0]] + spec_merge::<T, C>(ls, rs.skip(1)));
            assert(result@.push(right@[j as int]) + spec_merge::<T, C>(ls, rs.skip(1)) == result@ + (seq![rs[0]] + spec_merge::<T, C>(ls, rs.skip(1))));
            assert(ops@.push(0u8) + spec_ops::<T, C>(ls, rs.skip(1)) == ops@ + (seq![0u8] + spec_ops::<T, C>(ls, rs.skip(1))));
            result.push(right[j]);
            ops.push(0);
            j += 1;
        }
    }

    let k1 = vx_min(left.len(), limit - j);
    for x in it1: left[i..k1].iter()
        invariant true
    {
        result.push(*x);
        ops.push(1);
    }
    (result, ops)
}

pub open spec fn vx_min_spec(a: usize, b: usize) -> usize { if a <= b { a } else { b } }

} // verus!
fn main() {}
