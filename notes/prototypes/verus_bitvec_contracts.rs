use vstd::prelude::*;
verus! {

pub open spec fn bit(s: Seq<u8>, i: int) -> bool {
    0 <= i && i / 8 < s.len() && (s[i / 8] & (1u8 << ((i % 8) as u8))) != 0
}

pub trait BitVecMut {
    spec fn bits(&self) -> Seq<u8>;
    fn set(&mut self, index: usize)
        ensures
            forall|j: int| bit(final(self).bits(), j) == (j == index || bit(old(self).bits(), j)),
            final(self).bits().len() == if old(self).bits().len() > (index >> 3) { old(self).bits().len() } else { ((index >> 3) + 1) as nat };
    fn unset(&mut self, index: usize)
        ensures
            forall|j: int| bit(final(self).bits(), j) == (j != index && bit(old(self).bits(), j)),
            final(self).bits().len() == old(self).bits().len();
}

pub trait BitVec {
    spec fn bits_ro(&self) -> Seq<u8>;
    fn is_set(&self, index: usize) -> (r: bool)
        ensures r == bit(self.bits_ro(), index as int);
}

proof fn lemma_bits(b: u8, k: u8, m: u8)
    requires k < 8, m < 8
    ensures
        ((b | (1u8 << k)) & (1u8 << m)) != 0 <==> (m == k || (b & (1u8 << m)) != 0),
        ((b & (0xffu8 ^ (1u8 << k))) & (1u8 << m)) != 0 <==> (m != k && (b & (1u8 << m)) != 0),
        (0u8 & (1u8 << m)) == 0,
{
    assert(((b | (1u8 << k)) & (1u8 << m)) != 0 <==> (m == k || (b & (1u8 << m)) != 0)) by (bit_vector) requires k < 8, m < 8;
    assert(((b & (0xffu8 ^ (1u8 << k))) & (1u8 << m)) != 0 <==> (m != k && (b & (1u8 << m)) != 0)) by (bit_vector) requires k < 8, m < 8;
    assert((0u8 & (1u8 << m)) == 0) by (bit_vector);
}

impl BitVecMut for Vec<u8> {
    open spec fn bits(&self) -> Seq<u8> { self@ }
    fn set(&mut self, index: usize) {
        let slot = index >> 3;
        while slot >= self.len()
            invariant
                slot == index >> 3,
                self@.len() >= old(self)@.len(),
                forall|k: int| 0 <= k < old(self)@.len() ==> self@[k] == old(self)@[k],
                forall|k: int| old(self)@.len() <= k < self@.len() ==> self@[k] == 0u8,
                self@.len() <= slot + 1 || self@.len() == old(self)@.len(),
            decreases slot + 1 - self.len()
        {
            self.push(0);
        }
        self[slot] |= 1 << (index as u8 & 7)
    }

    fn unset(&mut self, index: usize) {
        let slot = index >> 3;
        if slot < self.len() {
            self[slot] &= 0xff ^ (1 << (index as u8 & 7));
        }
    }
}

impl BitVec for Vec<u8> {
    open spec fn bits_ro(&self) -> Seq<u8> { self@ }
    fn is_set(&self, index: usize) -> bool {
        let slot = index >> 3;
        slot < self.len() && self[slot] & (1 << (index as u8 & 7)) > 0
    }
}

} // verus!
fn main() {}
