use vstd::prelude::*;
verus! {

#[derive(Clone, Copy, PartialEq, Eq)]
pub enum MergeOp { TakeLeft, TakeRight, MergeRight }

pub trait Comparator<T> {
    spec fn le(l: T, r: T) -> bool;
    fn cmp_eq(left: T, right: T) -> (b: bool)
        ensures b == Self::le(left, right);
}

fn merge_deduplicate<T: Copy + PartialEq, C: Comparator<T>>(left: &[T], right: &[T]) -> (r: (Vec<T>, Vec<MergeOp>))
    requires left.len() + right.len() <= usize::MAX
{
    let mut result = Vec::new();
    let mut ops = Vec::<MergeOp>::new();

    let mut i = 0;
    let mut j = 0;
    while i < left.len() && j < right.len()
        invariant i <= left.len(), j <= right.len(),
        decreases left.len() - i + right.len() - j
    {
        if result.last() == Some(&right[j]) {
            ops.push(MergeOp::MergeRight);
            j += 1;
        } else if C::cmp_eq(left[i], right[j]) {
            result.push(left[i]);
            ops.push(MergeOp::TakeLeft);
            i += 1;
        } else {
            result.push(right[j]);
            ops.push(MergeOp::TakeRight);
            j += 1;
        }
    }
    (result, ops)
}

} // verus!
fn main() {}
