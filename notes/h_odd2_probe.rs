use std::collections::HashMap;
use std::panic::AssertUnwindSafe;
use futures::executor::block_on;
use locustdb::{LocustDB, Options};
use locustdb_serialization::event_buffer::{ColumnBuffer, ColumnData, EventBuffer, TableBuffer};

fn eb(table: &str, cols: Vec<(&str, ColumnData)>) -> EventBuffer {
    let mut m = HashMap::new();
    for (n, d) in cols { m.insert(n.to_string(), ColumnBuffer { data: d }); }
    let mut tables = HashMap::new();
    tables.insert(table.to_string(), TableBuffer::new(m));
    EventBuffer { tables }
}
fn q(db: &std::sync::Arc<LocustDB>, sql: &str) -> String {
    let (tx, rx) = std::sync::mpsc::channel();
    let db2 = db.clone(); let sql2 = sql.to_string();
    std::thread::spawn(move || {
        let r = std::panic::catch_unwind(AssertUnwindSafe(|| block_on(db2.run_query(&sql2, false, true, vec![]))));
        let s = match r {
            Ok(Ok(out)) => format!("OK rows={:?}", out.rows).chars().take(160).collect::<String>(),
            Ok(Err(e)) => format!("ERR {:?}", e).chars().take(160).collect(),
            Err(_) => "PANIC-in-caller".to_string(),
        };
        let _ = tx.send(s);
    });
    rx.recv_timeout(std::time::Duration::from_secs(10)).unwrap_or_else(|_| "NO ANSWER within 10 s".to_string())
}
#[test]
fn odd_queries() {
    let db = std::sync::Arc::new(LocustDB::new(&Options { threads: 8, read_threads: 1, metrics_table_name: None, ..Options::default() }));
    // a: ints with NULL; f: floats with NaN / -0.0 / NULL; s: strings with NULL and empty; g: small ints
    let mut tb = TableBuffer::default();
    use locustdb_serialization::api::AnyVal::*;
    let rows: Vec<Vec<(&str, locustdb_serialization::api::AnyVal)>> = vec![
        vec![("a", Int(3)), ("f", Float(1.5)), ("s", Str("b".into())), ("g", Int(1))],
        vec![("a", Int(1)), ("f", Float(f64::NAN)), ("s", Str("".into())), ("g", Int(1))],
        vec![("f", Float(-0.0)), ("s", Str("a".into())), ("g", Int(2))],
        vec![("a", Int(2)), ("s", Str("b".into())), ("g", Int(2))],
        vec![("a", Int(2)), ("f", Float(0.0)), ("s", Str("c".into())), ("g", Int(2))],
        vec![("a", Int(-5)), ("f", Float(1e300)), ("s", Str("é".into())), ("g", Int(3))],
    ];
    for r in rows { tb.push_row_and_timestamp(r.into_iter().map(|(k, v)| (k.to_string(), v)).collect::<Vec<_>>()); }
    let mut tables = HashMap::new();
    tables.insert("t".to_string(), tb);
    block_on(db.ingest_efficient(EventBuffer { tables }));
    for sql in [
        "SELECT a FROM t ORDER BY a", "SELECT a FROM t ORDER BY a DESC", "SELECT a FROM t ORDER BY a LIMIT 2", "SELECT a FROM t ORDER BY a DESC LIMIT 2",
        "SELECT f FROM t ORDER BY f", "SELECT f FROM t ORDER BY f DESC LIMIT 2", "SELECT s FROM t ORDER BY s", "SELECT s FROM t ORDER BY s DESC LIMIT 2",
        "SELECT g, count(1), count(a), sum(a), min(a), max(a) FROM t", "SELECT g, sum(f), min(f), max(f) FROM t", "SELECT g, avg(a) FROM t",
        "SELECT a, count(1) FROM t", "SELECT s, count(1) FROM t", "SELECT f, count(1) FROM t", "SELECT a, s, count(1) FROM t",
        "SELECT count(1) FROM t WHERE a <> 2", "SELECT count(1) FROM t WHERE NOT (a = 2)", "SELECT count(1) FROM t WHERE a IS NULL", "SELECT count(1) FROM t WHERE s = ''",
        "SELECT count(1) FROM t WHERE s IS NULL", "SELECT count(1) FROM t WHERE f = f", "SELECT count(1) FROM t WHERE f <> f", "SELECT count(1) FROM t WHERE a < 2 OR f > 1",
        "SELECT count(1) FROM t WHERE a < 2 AND f > 1", "SELECT count(1) FROM t WHERE zz IS NULL", "SELECT zz FROM t LIMIT 2", "SELECT max(a), min(s) FROM t",
        "SELECT sum(a) FROM t WHERE a > 100", "SELECT min(a) FROM t WHERE a > 100", "SELECT count(1) FROM t WHERE a > 100", "SELECT a FROM t WHERE a > 100",
        "SELECT a + f FROM t", "SELECT a * 1.5 FROM t", "SELECT a / 2 FROM t", "SELECT -5 / 2 FROM t LIMIT 1", "SELECT a % 2 FROM t",
        "SELECT length(s) FROM t", "SELECT s FROM t WHERE s > 'a'", "SELECT s FROM t WHERE s >= 'b'", "SELECT s FROM t WHERE s < 'b'", "SELECT s FROM t WHERE s <> 'b'",
    ] {
        println!("ODD {:60} {}", sql, q(&db, sql));
    }
}
