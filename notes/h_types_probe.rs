use std::collections::HashMap;
use std::panic::AssertUnwindSafe;
use futures::executor::block_on;
use locustdb::{LocustDB, Options, Value};
use locustdb_serialization::event_buffer::{EventBuffer, TableBuffer};
use locustdb_serialization::api::AnyVal;
fn q(db: &std::sync::Arc<LocustDB>, sql: &str) -> String {
    let (tx, rx) = std::sync::mpsc::channel();
    let db2 = db.clone(); let sql2 = sql.to_string();
    std::thread::spawn(move || {
        let r = std::panic::catch_unwind(AssertUnwindSafe(|| block_on(db2.run_query(&sql2, false, true, vec![]))));
        let s = match r { Ok(Ok(out)) => format!("OK {:?}", out.rows.unwrap_or_default()).chars().take(230).collect::<String>(), Ok(Err(e)) => format!("ERR {:?}", e).chars().take(140).collect(), Err(_) => "PANIC-in-caller".to_string() };
        let _ = tx.send(s);
    });
    rx.recv_timeout(std::time::Duration::from_secs(20)).unwrap_or_else(|_| "NO ANSWER within 20 s".to_string())
}
#[test]
fn type_changes_across_batches() {
    let dir = std::env::temp_dir().join(format!("vx_types_{}", std::process::id()));
    let _ = std::fs::remove_dir_all(&dir);
    let db = std::sync::Arc::new(LocustDB::new(&Options { threads: 8, read_threads: 1, db_path: Some(dir.clone()), metrics_table_name: None, partition_combine_factor: 999999, ..Options::default() }));
    let batches: Vec<Vec<AnyVal>> = vec![
        vec![AnyVal::Int(1), AnyVal::Int(2), AnyVal::Int(3)],
        vec![AnyVal::Float(0.5), AnyVal::Float(2.5)],
        vec![AnyVal::Str("x".into()), AnyVal::Str("y".into())],
        vec![AnyVal::Int(7), AnyVal::Null, AnyVal::Int(9)],
        vec![AnyVal::Int(4), AnyVal::Float(4.5)],
    ];
    let mut id = 0;
    for b in batches {
        let mut tb = TableBuffer::default();
        for v in b { let mut row = vec![("id".to_string(), AnyVal::Int(id))]; if !matches!(v, AnyVal::Null) { row.push(("v".to_string(), v)); } tb.push_row_and_timestamp(row); id += 1; }
        let mut tables = HashMap::new();
        tables.insert("t".to_string(), tb);
        block_on(db.ingest_efficient(EventBuffer { tables }));
        db.force_flush();
    }
    for sql in ["SELECT id, v FROM t ORDER BY id", "SELECT id, v FROM t", "SELECT id FROM t WHERE v > 2", "SELECT id FROM t WHERE v = 'x'", "SELECT sum(v) FROM t", "SELECT max(v), min(v), count(v) FROM t",
                "SELECT v, count(1) FROM t", "SELECT id FROM t ORDER BY v, id LIMIT 20", "SELECT id FROM t ORDER BY v DESC, id LIMIT 3", "SELECT id, v + 1 FROM t ORDER BY id", "SELECT count(1) FROM t WHERE v IS NULL"] {
        println!("TYP {:45} {}", sql, q(&db, sql));
    }
    let _ = std::fs::remove_dir_all(&dir);
}
