use std::panic::AssertUnwindSafe;
use futures::executor::block_on;
use locustdb::{LocustDB, Options, LoadOptions, Value};
fn q(db: &std::sync::Arc<LocustDB>, sql: &str) -> Result<Vec<Vec<Value>>, String> {
    let (tx, rx) = std::sync::mpsc::channel();
    let db2 = db.clone(); let sql2 = sql.to_string();
    std::thread::spawn(move || {
        let r = std::panic::catch_unwind(AssertUnwindSafe(|| block_on(db2.run_query(&sql2, false, true, vec![]))));
        let s = match r { Ok(Ok(out)) => Ok(out.rows.unwrap_or_default()), Ok(Err(e)) => Err(format!("ERR {:?}", e).chars().take(120).collect()), Err(_) => Err("PANIC-in-caller".to_string()) };
        let _ = tx.send(s);
    });
    rx.recv_timeout(std::time::Duration::from_secs(20)).unwrap_or_else(|_| Err("NO ANSWER within 20 s".to_string()))
}
#[test]
fn csv_roundtrip() {
    let dir = std::env::temp_dir().join(format!("vx_csv_{}", std::process::id()));
    let _ = std::fs::create_dir_all(&dir);
    let path = dir.join("t.csv");
    let lines = vec![
        "id,i,f,s,m,e",
        "0,5,1.5,abc,1,",
        "1,-7,-0.0,\"with,comma\",x,",
        "2,9223372036854775806,1e300,\"quote\"\"d\",2.5,",
        "3,-9223372036854775808,5e-324,,3,",
        "4,0,NaN,é,,",
        "5,255,inf,\" lead\",00,",
        "6,256,-inf,trail ,-0,",
        "7,65536,0.1,0123,1e3,",
    ];
    std::fs::write(&path, lines.join("\n") + "\n").unwrap();
    for (tag, nulls) in [("plain", false), ("allow_nulls", true)] {
        let db = std::sync::Arc::new(LocustDB::new(&Options { threads: 2, read_threads: 1, metrics_table_name: None, ..Options::default() }));
        let mut lo = LoadOptions::new(&path, "t").with_partition_size(3);
        if nulls { lo = lo.allow_nulls_all_columns(); }
        let r = std::panic::catch_unwind(AssertUnwindSafe(|| block_on(db.load_csv(lo))));
        println!("CSV {} load: {:?}", tag, r.map(|x| format!("{:?}", x)).unwrap_or_else(|_| "PANIC".to_string()));
        for c in ["i", "f", "s", "m", "e"] {
            println!("CSV {} {} {:?}", tag, c, q(&db, &format!("SELECT id, {} FROM t ORDER BY id", c)).map(|rows| rows.iter().map(|r| format!("{:?}", r[1])).collect::<Vec<_>>().join(" | ")));
        }
    }
    let _ = std::fs::remove_dir_all(&dir);
}
