// Design-time probe of DESIGN.md §7 hypotheses through the public API. NOT part of the checking machinery:
// it was run once in a scratch copy of /repo (tests/h_probe.rs, `cargo test --offline --test h_probe -- --test-threads 1 --nocapture`)
// to find out which suspected contract failures are real defects. Kept as the seed for API-level replays.
use std::collections::HashMap;
use std::panic::AssertUnwindSafe;
use futures::executor::block_on;
use locustdb::{LocustDB, Options};
use locustdb_serialization::event_buffer::{ColumnBuffer, ColumnData, EventBuffer, TableBuffer};
use locustdb_serialization::api::AnyVal;

fn eb(table: &str, cols: Vec<(&str, ColumnData)>) -> EventBuffer {
    let mut m = HashMap::new();
    for (n, d) in cols { m.insert(n.to_string(), ColumnBuffer { data: d }); }
    let mut tables = HashMap::new();
    tables.insert(table.to_string(), TableBuffer::new(m));
    EventBuffer { tables }
}

fn q(db: &LocustDB, sql: &str) -> String {
    let r = std::panic::catch_unwind(AssertUnwindSafe(|| block_on(db.run_query(sql, false, true, vec![]))));
    match r {
        Ok(Ok(out)) => format!("OK rows={:?}", out.rows),
        Ok(Err(e)) => format!("ERR {:?}", e).chars().take(200).collect(),
        Err(_) => "PANIC-in-caller".to_string(),
    }
}

fn mem() -> LocustDB { LocustDB::new(&Options { threads: 2, read_threads: 1, metrics_table_name: None, ..Options::default() }) }

#[test]
fn h1_mod_min() {
    let db = mem();
    block_on(db.ingest_efficient(eb("t", vec![("a", ColumnData::I64(vec![i64::MIN, 5])), ("b", ColumnData::I64(vec![-1, 3]))])));
    println!("H1 {}", q(&db, "SELECT a % b FROM t"));
    println!("H1 canary {}", q(&db, "SELECT a FROM t"));
}

#[test]
fn h4_offset_beyond() {
    let db = mem();
    block_on(db.ingest_efficient(eb("t", vec![("a", ColumnData::I64(vec![1, 2, 3]))])));
    println!("H4 {}", q(&db, "SELECT a FROM t LIMIT 2 OFFSET 10"));
    println!("H4 canary {}", q(&db, "SELECT a FROM t"));
}

#[test]
fn h5_limit_overflow() {
    let db = mem();
    block_on(db.ingest_efficient(eb("t", vec![("a", ColumnData::I64(vec![1, 2, 3]))])));
    println!("H5 {}", q(&db, "SELECT a FROM t LIMIT 18446744073709551615 OFFSET 1"));
}

#[test]
fn h12_limit_literal() {
    let db = mem();
    block_on(db.ingest_efficient(eb("t", vec![("a", ColumnData::I64(vec![1, 2, 3]))])));
    println!("H12a {}", q(&db, "SELECT a FROM t LIMIT 1.5"));
    println!("H12b {}", q(&db, "SELECT a FROM t LIMIT 99999999999999999999"));
}

#[test]
fn h6_order_nullable_str_desc() {
    let db = mem();
    // string sparse not supported via row API; use two batches: batch1 has s, batch2 lacks s
    block_on(db.ingest_efficient(eb("t", vec![("id", ColumnData::I64(vec![0, 1, 2])), ("s", ColumnData::String(vec!["b".into(), "a".into(), "c".into()]))])));
    block_on(db.ingest_efficient(eb("t", vec![("id", ColumnData::I64(vec![3, 4]))])));
    println!("H6 asc  {}", q(&db, "SELECT id, s FROM t ORDER BY s"));
    println!("H6 desc {}", q(&db, "SELECT id, s FROM t ORDER BY s DESC"));
}

#[test]
fn h9_string_lt_absent() {
    let db = mem();
    let strs: Vec<String> = (0..40).map(|i| ["apple", "kiwi", "pear", "zebra"][i % 4].to_string()).collect();
    block_on(db.ingest_efficient(eb("t", vec![("id", ColumnData::I64((0..40).collect())), ("s", ColumnData::String(strs))])));
    println!("H9 present {}", q(&db, "SELECT COUNT(0) FROM t WHERE s < 'pear'"));
    println!("H9 absent  {}", q(&db, "SELECT COUNT(0) FROM t WHERE s < 'm'"));
}

#[test]
fn h3_mixed_null() {
    let db = mem();
    block_on(db.ingest_efficient(eb("t", vec![("a", ColumnData::String(vec!["x".into()])), ("id", ColumnData::I64(vec![0]))])));
    block_on(db.ingest_efficient(eb("t", vec![("a", ColumnData::I64(vec![1])), ("id", ColumnData::I64(vec![1]))])));
    block_on(db.ingest_efficient(eb("t", vec![("id", ColumnData::I64(vec![2]))])));
    println!("H3 {}", q(&db, "SELECT id, a FROM t"));
    println!("H3 canary {}", q(&db, "SELECT id FROM t"));
}

#[test]
fn h13_lub() {
    let dir = tempfile::tempdir().unwrap();
    let db = LocustDB::new(&Options { threads: 2, read_threads: 1, metrics_table_name: None, db_path: Some(dir.path().into()), partition_combine_factor: 0, ..Options::default() });
    block_on(db.ingest_efficient(eb("t", vec![("a", ColumnData::String(vec!["x".into(), "y".into()])), ("id", ColumnData::I64(vec![0, 1]))])));
    db.force_flush();
    block_on(db.ingest_efficient(eb("t", vec![("a", ColumnData::I64(vec![1, 2])), ("id", ColumnData::I64(vec![2, 3]))])));
    db.force_flush();
    println!("H13 select {}", q(&db, "SELECT id, a FROM t"));
    println!("H13 order  {}", q(&db, "SELECT id, a FROM t ORDER BY a"));
    println!("H13 canary {}", q(&db, "SELECT id FROM t"));
}

#[test]
fn h2_compaction_nulls() {
    let dir = tempfile::tempdir().unwrap();
    let db = LocustDB::new(&Options { threads: 2, read_threads: 1, metrics_table_name: None, db_path: Some(dir.path().into()), partition_combine_factor: 1, ..Options::default() });
    for b in 0..3i64 {
        // column x: present in rows 0,2 of each batch, NULL in row 1 (sparse)
        let mut t = TableBuffer::default();
        for r in 0..3i64 {
            let mut row = vec![("id".to_string(), AnyVal::Int(3 * b + r)), ("timestamp".to_string(), AnyVal::Int(0))];
            if r != 1 { row.push(("x".to_string(), AnyVal::Int(10 * (r + 1) + b))); }
            t.push_row_and_timestamp(row);
        }
        let mut tables = HashMap::new();
        tables.insert("t".to_string(), t);
        block_on(db.ingest_efficient(EventBuffer { tables }));
        println!("H2 before flush {} {}", b, q(&db, "SELECT id, x FROM t"));
        db.force_flush();
        println!("H2 after flush  {} {}", b, q(&db, "SELECT id, x FROM t"));
        for ts in block_on(db.table_stats()).unwrap() { if ts.name == "t" { println!("H2 stats batches={} rows={}", ts.batches, ts.rows); } }
    }
}

#[test]
fn h14_hex_compaction() {
    let dir = tempfile::tempdir().unwrap();
    let db = LocustDB::new(&Options { threads: 2, read_threads: 1, metrics_table_name: None, db_path: Some(dir.path().into()), partition_combine_factor: 1, ..Options::default() });
    for b in 0..3i64 {
        let strs: Vec<String> = (0..8).map(|i| format!("{:016x}", ((b * 8 + i) as u64).wrapping_mul(0x9e3779b97f4a7c15u64))).collect();
        block_on(db.ingest_efficient(eb("t", vec![("id", ColumnData::I64((8 * b..8 * b + 8).collect())), ("h", ColumnData::String(strs))])));
        let (tx, rx) = std::sync::mpsc::channel();
        let dbref: &'static LocustDB = unsafe { std::mem::transmute(&db) };
        std::thread::spawn(move || { dbref.force_flush(); let _ = tx.send(()); });
        match rx.recv_timeout(std::time::Duration::from_secs(20)) {
            Ok(()) => println!("H14 flush {} returned", b),
            Err(_) => { println!("H14 flush {} HUNG (>20s)", b); std::process::exit(0); }
        }
        println!("H14 after flush {} {}", b, q(&db, "SELECT COUNT(0) FROM t"));
    }
}

#[test]
fn h6b_topn_nullable_str_desc() {
    let db = mem();
    let strs: Vec<String> = ["d", "a", "h", "c", "b", "g", "e", "f"].iter().map(|s| s.to_string()).collect();
    block_on(db.ingest_efficient(eb("t", vec![("id", ColumnData::I64((0..8).collect())), ("s", ColumnData::String(strs))])));
    block_on(db.ingest_efficient(eb("t", vec![("id", ColumnData::I64(vec![8, 9, 10, 11]))])));
    println!("H6b desc limit2 {}", q(&db, "SELECT id, s FROM t ORDER BY s DESC LIMIT 3"));
    println!("H6b asc  limit2 {}", q(&db, "SELECT id, s FROM t ORDER BY s LIMIT 3"));
    println!("H6b desc limit5 {}", q(&db, "SELECT id, s FROM t ORDER BY s DESC LIMIT 5"));
}

#[test]
fn h7_topn_nullable_float_desc() {
    let db = mem();
    block_on(db.ingest_efficient(eb("t", vec![("id", ColumnData::I64((0..8).collect())), ("f", ColumnData::Dense(vec![4.0, 1.0, 8.0, 3.0, 2.0, 7.0, 5.0, 6.0]))])));
    block_on(db.ingest_efficient(eb("t", vec![("id", ColumnData::I64(vec![8, 9, 10, 11]))])));
    println!("H7 desc limit3 {}", q(&db, "SELECT id, f FROM t ORDER BY f DESC LIMIT 3"));
    println!("H7 desc all    {}", q(&db, "SELECT id, f FROM t ORDER BY f DESC"));
    println!("H7 asc limit3  {}", q(&db, "SELECT id, f FROM t ORDER BY f LIMIT 3"));
}

#[test]
fn h8_encode_int_extreme() {
    let db = mem();
    block_on(db.ingest_efficient(eb("t", vec![("a", ColumnData::I64(vec![1000, 1001, 1002, 1200]))])));
    println!("H8 lt max {}", q(&db, "SELECT a FROM t WHERE a < 9223372036854775807"));
    println!("H8 gt min {}", q(&db, "SELECT a FROM t WHERE a > -9223372036854775807"));
    println!("H8 canary {}", q(&db, "SELECT a FROM t"));
}

#[test]
fn h10_int_extremes() {
    let db = mem();
    block_on(db.ingest_efficient(eb("t", vec![("a", ColumnData::I64(vec![i64::MIN, 0])), ("b", ColumnData::I64(vec![-6917529027641081856, 6917529027641081856]))])));
    println!("H10 {}", q(&db, "SELECT a, b FROM t"));
}
