use std::collections::HashMap;
use std::panic::AssertUnwindSafe;
use futures::executor::block_on;
use locustdb::{LocustDB, Options};
use locustdb_serialization::event_buffer::{ColumnBuffer, ColumnData, EventBuffer, TableBuffer};

fn eb(table: &str, cols: Vec<(&str, ColumnData)>) -> EventBuffer {
    let mut m = HashMap::new();
    for (n, d) in cols { m.insert(n.to_string(), ColumnBuffer { data: d }); }
    let mut tables = HashMap::new();
    tables.insert(table.to_string(), TableBuffer::new(m));
    EventBuffer { tables }
}
fn q(db: &std::sync::Arc<LocustDB>, sql: &str) -> String {
    let (tx, rx) = std::sync::mpsc::channel();
    let db2 = db.clone(); let sql2 = sql.to_string();
    std::thread::spawn(move || {
        let r = std::panic::catch_unwind(AssertUnwindSafe(|| block_on(db2.run_query(&sql2, false, true, vec![]))));
        let s = match r {
            Ok(Ok(out)) => format!("OK rows={:?}", out.rows).chars().take(160).collect::<String>(),
            Ok(Err(e)) => format!("ERR {:?}", e).chars().take(160).collect(),
            Err(_) => "PANIC-in-caller".to_string(),
        };
        let _ = tx.send(s);
    });
    rx.recv_timeout(std::time::Duration::from_secs(10)).unwrap_or_else(|_| "NO ANSWER within 10 s".to_string())
}
#[test]
fn odd_queries() {
    let db = std::sync::Arc::new(LocustDB::new(&Options { threads: 8, read_threads: 1, metrics_table_name: None, ..Options::default() }));
    block_on(db.ingest_efficient(eb("t", vec![
        ("a", ColumnData::I64(vec![1, 2, 3, 1700000000000000])),
        ("f", ColumnData::Dense(vec![0.5, 1.5, f64::NAN, -0.0])),
        ("s", ColumnData::String(vec!["x".into(), "yy".into(), "".into(), "z(".into()])),
    ])));
    for sql in [
        "SELECT 5 FROM t", "SELECT -5 FROM t", "SELECT -9223372036854775808 FROM t", "SELECT 9223372036854775807 FROM t", "SELECT a, -5 FROM t", "SELECT -a FROM t", "SELECT a - 9223372036854775808 FROM t",
        "SELECT a FROM t WHERE a > -9223372036854775808", ";", "SELECT a FROM t; SELECT a FROM t", "SELECT a FROM t ORDER BY a DESC LIMIT 0", "SELECT a FROM t ORDER BY a, f LIMIT 0",
    ] {
        println!("ODD {:60} {}", sql, q(&db, sql));
    }
}
